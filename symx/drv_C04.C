// Driver for C04: the algebra of Jones matrices, casts, element access.
#include "Pauli.h"
#include "Estimate.h"
#include "drv_common.h"

using namespace symx;

static_assert (std::is_same<decltype (Jones<float>() * Jones<double>()), const Jones<double> >::value, "float*double Jones promotes to double");
static_assert (std::is_same<decltype (Jones<double>() + Jones<float>()), const Jones<double> >::value, "double+float Jones promotes to double");
static_assert (std::is_same<decltype (Jones<float>() - Jones<float>()), const Jones<float> >::value, "float-float Jones stays float");

template<class D> static void dump_elements (D& d)
{
  typedef DatumTraits<D> Tr;
  for (unsigned i=0; i<Tr::ndim(); i++) out (nm ("e", i), Tr::element (d, i));
}
template<class D> static void write_elements (D& d)
{
  typedef DatumTraits<D> Tr;
  for (unsigned i=0; i<Tr::ndim(); i++)
    Tr::element (d, i) = in (nm ("w", i).c_str());
}

// independent oracles (used by the counterexample search only)
typedef std::complex<double> cd;
struct P2 { cd a, b, c, d; };
static P2 p2 (const Jones<double>& j) { return P2 { j.j00, j.j01, j.j10, j.j11 }; }
static P2 pmul (const P2& x, const P2& y) { return P2 { x.a*y.a + x.b*y.c, x.a*y.b + x.b*y.d, x.c*y.a + x.d*y.c, x.c*y.b + x.d*y.d }; }
static void pexpect (const std::string& what, const Jones<double>& got, const P2& w)
{ expect (what + " [0][0]", got.j00, w.a); expect (what + " [0][1]", got.j01, w.b); expect (what + " [1][0]", got.j10, w.c); expect (what + " [1][1]", got.j11, w.d); }

int main (int argc, char** argv)
{
  symx::init ("C04", argc > 1 ? argv[1] : ".");

  fn ("jones_mul", [] { Jones<double> a = jones_in ("a"), b = jones_in ("b"); out_jones ("r", a * b);
    if (!symbolic) pexpect ("Jones product", a * b, pmul (p2 (a), p2 (b))); });
  fn ("jones_add", [] { Jones<double> a = jones_in ("a"), b = jones_in ("b"); out_jones ("r", a + b); });
  fn ("jones_sub", [] { Jones<double> a = jones_in ("a"), b = jones_in ("b"); out_jones ("r", a - b); });
  fn ("jones_neg", [] { Jones<double> a = jones_in ("a"); out_jones ("r", -a); });
  fn ("jones_mulc", [] { Jones<double> a = jones_in ("a"); std::complex<double> z = complex_in ("z"); out_jones ("r", a * z); });
  fn ("jones_cmul", [] { Jones<double> a = jones_in ("a"); std::complex<double> z = complex_in ("z"); out_jones ("r", z * a); });
  fn ("jones_mulr", [] { Jones<double> a = jones_in ("a"); double r = in ("r"); out_jones ("r", a * r); });
  fn ("jones_rmul", [] { Jones<double> a = jones_in ("a"); double r = in ("r"); out_jones ("r", r * a); });
  fn ("jones_divc", [] { Jones<double> a = jones_in ("a"); std::complex<double> z = complex_in ("z", 0.5, 2); out_jones ("r", a / z); });
  fn ("jones_divr", [] { Jones<double> a = jones_in ("a"); double r = in ("r", 0.5, 2); out_jones ("r", a / r); });
  fn ("jones_det", [] { Jones<double> a = jones_in ("a"); out ("r", det (a));
    if (!symbolic) expect ("det", det (a), a.j00*a.j11 - a.j01*a.j10); });
  fn ("jones_trace", [] { Jones<double> a = jones_in ("a"); out ("r", trace (a));
    if (!symbolic) expect ("trace", trace (a), a.j00 + a.j11); });
  fn ("jones_norm", [] { Jones<double> a = jones_in ("a"); out ("r", norm (a));
    if (!symbolic) expect ("norm = trace(J J^dagger)", cd (norm (a), 0), trace (a * herm (a))); });
  fn ("jones_conj", [] { Jones<double> a = jones_in ("a"); out_jones ("r", conj (a)); });
  fn ("jones_herm", [] { Jones<double> a = jones_in ("a"); out_jones ("r", herm (a));
    if (!symbolic) pexpect ("Hermitian transpose", herm (a), P2 { std::conj (a.j00), std::conj (a.j10), std::conj (a.j01), std::conj (a.j11) }); });
  fn ("jones_inv", [] { Jones<double> a = jones_in ("a"); out_jones ("r", inv (a));
    if (!symbolic) { cd dt = a.j00*a.j11 - a.j01*a.j10; if (std::abs (dt) > 1e-3) {
      pexpect ("inv(J)*J", inv (a) * a, P2 { cd(1.0), cd(0.0), cd(0.0), cd(1.0) }); pexpect ("J*inv(J)", a * inv (a), P2 { cd(1.0), cd(0.0), cd(0.0), cd(1.0) }); } } });
  // Jones::identity() is initialised from int literals (int -> complex needs two
  // user conversions at Sym): exercised in the plain build only
#ifndef SYMX_SYMBOLIC
  fn ("jones_identity_plain", [] { Jones<double> I = Jones<double>::identity();
    expect ("identity j00", I.j00, std::complex<double>(1,0)); expect ("identity j01", I.j01, std::complex<double>(0,0));
    expect ("identity j10", I.j10, std::complex<double>(0,0)); expect ("identity j11", I.j11, std::complex<double>(1,0)); }, 1);
#endif
  // assignment of a real scalar, of a complex scalar, of another matrix
  fn ("jones_assign_real", [] { Jones<double> a = jones_in ("a"); double r = in ("r"); a = r; out_jones ("r", a); });
  fn ("jones_assign_complex", [] { Jones<double> a = jones_in ("a"); std::complex<double> z = complex_in ("z"); a = z; out_jones ("r", a); });
  fn ("jones_assign_copy", [] { Jones<double> a = jones_in ("a"), b = jones_in ("b"); b = a; out_jones ("r", b); });
  fn ("jones_scalar_ctor", [] { double r = in ("r"); out_jones ("r", Jones<double> (r)); });

  // casts to and from the generic 2x2 matrix type
  fn ("jones_to_matrix", [] {
    Jones<double> a = jones_in ("a");
    Matrix<2,2,std::complex<double> > M = a;
    for (unsigned i=0; i<2; i++) for (unsigned j=0; j<2; j++) out (nm ("m", i, j), M[i][j]);
  });
  fn ("matrix_to_jones", [] {
    Matrix<2,2,std::complex<double> > M;
    for (unsigned i=0; i<2; i++) for (unsigned j=0; j<2; j++) M[i][j] = complex_in (nm ("m", i, j));
    out_jones ("r", Jones<double> (M));
  });
  // product through the generic matrix type agrees with the Jones product
  fn ("jones_mul_via_matrix", [] {
    Jones<double> a = jones_in ("a"), b = jones_in ("b");
    Matrix<2,2,std::complex<double> > A = a, B = b;
    out_jones ("r", Jones<double> (A * B));
  });

  // mixed single/double precision operands (rnd32 nodes are the identity over R)
  fn ("jones_mul_float_double", [] {
    Jones<double> a = jones_in ("a"), b = jones_in ("b");
    Jones<float> af (a);
    out_jones ("r", af * b);
    if (!symbolic) { Jones<double> ad (af); pexpect ("Jones<float> * Jones<double>", af * b, pmul (p2 (ad), p2 (b)));
      expect ("Jones<float> -> Jones<double> keeps j10", ad.j10, cd (float (a.j10.real ()), float (a.j10.imag ()))); expect ("Jones<float> -> Jones<double> keeps j01", ad.j01, cd (float (a.j01.real ()), float (a.j01.imag ()))); }
  });
  fn ("jones_add_double_float", [] {
    Jones<double> a = jones_in ("a"), b = jones_in ("b");
    Jones<float> bf (b);
    out_jones ("r", a + bf);
  });

  // diagonality test, all paths
  fn_paths ("jones_is_diagonal", [] {
    Jones<double> a = jones_in ("a");
    out_int ("diag", a.is_diagonal() ? 1 : 0);
  });

  // degree of polarization of a coherency matrix
  fn ("jones_p", [] {
    Stokes<double> s = stokes_valid_in ("s");
    out ("p", convert (s).p());
    if (!symbolic) expect ("degree of polarization", convert (s).p(), std::sqrt ((s[1]*s[1] + s[2]*s[2] + s[3]*s[3]) / (s[0]*s[0])));
  });

  // element access: by index, by (row, column)
  fn ("jones_index_read", [] {
    Jones<double> a = jones_in ("a");
    for (unsigned n=0; n<4; n++) out (nm ("i", n), a[n]);
    for (unsigned r=0; r<2; r++) for (unsigned c=0; c<2; c++) out (nm ("rc", r, c), a (r, c));
    const Jones<double>& ca = a;
    for (unsigned n=0; n<4; n++) out (nm ("ci", n), ca[n]);
    for (unsigned r=0; r<2; r++) for (unsigned c=0; c<2; c++) out (nm ("crc", r, c), ca (r, c));
  });
  fn ("jones_index_write", [] {
    Jones<double> a = jones_in ("a");
    for (unsigned n=0; n<4; n++) a[n] = complex_in (nm ("w", n));
    out_jones ("r", a);
  });
  fn ("jones_rc_write", [] {
    Jones<double> a = jones_in ("a");
    for (unsigned r=0; r<2; r++) for (unsigned c=0; c<2; c++) a (r, c) = complex_in (nm ("w", r, c));
    out_jones ("r", a);
  });
  for (unsigned k=0; k<4; k++)
    fn (nm ("jones_write_one", k), [k] {   // writing one element leaves the others alone
      Jones<double> a = jones_in ("a");
      a[k] = complex_in ("w");
      out_jones ("r", a);
    });

  // generic element-access traits: every stored scalar once, in storage order
  fn ("traits_jones", [] { Jones<double> a = jones_in ("a"); out_int ("ndim", DatumTraits<Jones<double> >::ndim());
    dump_elements (a); const Jones<double>& c = a; for (unsigned i=0; i<4; i++) out (nm ("c", i), DatumTraits<Jones<double> >::element (c, i)); });
  fn ("traits_jones_write", [] { Jones<double> a = jones_in ("a");
    for (unsigned i=0; i<4; i++) DatumTraits<Jones<double> >::element (a, i) = complex_in (nm ("w", i));
    out_jones ("r", a); });
  fn ("traits_quat", [] { Quaternion<double,Hermitian> q = quat_in<Hermitian> ("q"); out_int ("ndim", DatumTraits<Quaternion<double,Hermitian> >::ndim());
    dump_elements (q); });
  fn ("traits_quat_write", [] { Quaternion<double,Unitary> q = quat_in<Unitary> ("q"); write_elements (q); out_quat ("r", q); });
  fn ("traits_vector", [] { Vector<3,double> v; for (unsigned i=0; i<3; i++) v[i] = in (nm ("v", i).c_str());
    out_int ("ndim", DatumTraits<Vector<3,double> >::ndim()); dump_elements (v); });
  fn ("traits_vector_write", [] { Vector<3,double> v; for (unsigned i=0; i<3; i++) v[i] = in (nm ("v", i).c_str());
    write_elements (v); out_vec ("r", v); });
  fn ("traits_stokes", [] { Stokes<double> s = stokes_in ("s"); out_int ("ndim", DatumTraits<Stokes<double> >::ndim()); dump_elements (s); });
  fn ("traits_matrix", [] { Matrix<2,3,double> m; for (unsigned i=0; i<2; i++) for (unsigned j=0; j<3; j++) m[i][j] = in (nm ("m", i, j).c_str());
    out_int ("ndim", DatumTraits<Matrix<2,3,double> >::ndim()); dump_elements (m); });
  fn ("traits_matrix_write", [] { Matrix<2,3,double> m; for (unsigned i=0; i<2; i++) for (unsigned j=0; j<3; j++) m[i][j] = in (nm ("m", i, j).c_str());
    write_elements (m); for (unsigned i=0; i<2; i++) for (unsigned j=0; j<3; j++) out (nm ("r", i, j), m[i][j]); });
  fn ("traits_complex", [] { std::complex<double> z = complex_in ("z"); out_int ("ndim", DatumTraits<std::complex<double> >::ndim()); dump_elements (z); });
  fn ("traits_complex_write", [] { std::complex<double> z = complex_in ("z"); write_elements (z); out ("r", z); });
  fn ("traits_estimate", [] { double v = in ("v"), s = in ("s", 0.1, 1); Estimate<double> e (v, s);
    out_int ("ndim", DatumTraits<Estimate<double> >::ndim()); out ("e0", DatumTraits<Estimate<double> >::element (e, 0)); out ("var", e.var); });
  fn ("traits_estimate_write", [] { double v = in ("v"), s = in ("s", 0.1, 1); Estimate<double> e (v, s);
    DatumTraits<Estimate<double> >::element (e, 0) = in ("w0"); out ("val", e.val); out ("var", e.var); });
  fn ("traits_scalar", [] { double x = in ("x"); out_int ("ndim", DatumTraits<double>::ndim()); out ("e0", DatumTraits<double>::element (x, 0)); });

#ifndef SYMX_SYMBOLIC
  // scalar multiplication and division at extreme magnitudes (the property's "huge/tiny and mixed-scale elements"):
  // the quotient by a complex scalar is the element-wise complex quotient whenever that is representable,
  // and scalar division commutes with the product
  fn ("jones_scalar_extreme_plain", [] {
    typedef std::complex<double> cdd; typedef std::complex<float> cff;
    const double dirs[][2] = { {1, 0}, {0, 1}, {0.6, -0.8}, {-0.28, 0.96}, {1, 1} };
    Jones<double> A (cdd (1, 2), cdd (-3, 0.5), cdd (0.25, -1), cdd (2, 2)), B (cdd (0.5, -1), cdd (1, 1), cdd (-2, 0.25), cdd (0, 3));
    for (double mag : { 1e-300, 1e-250, 1e-200, 1e-170, 1e-160, 1e-155, 1e-100, 1e-10, 1.0, 1e10, 1e100, 1e150, 1e155, 1e160, 1e170, 1e200, 1e250, 1e300 }) for (auto& d : dirs) {
      cdd c (mag * d[0], mag * d[1]); Jones<double> Q = A / c, P = A * c; char what[200];
      for (unsigned i=0; i<4; i++) { cdd wq = A[i] / c, wp = A[i] * c;
        snprintf (what, 200, "(J / c)[%u] = J[%u] / c for c = %g * (%g, %g)", i, i, mag, d[0], d[1]);
        expect_true (what, std::abs (Q[i] - wq) <= 1e-14 * std::abs (wq));
        snprintf (what, 200, "(J * c)[%u] = J[%u] * c for c = %g * (%g, %g)", i, i, mag, d[0], d[1]);
        expect_true (what, std::abs (P[i] - wp) <= 1e-14 * std::abs (wp)); }
      if (mag >= 1e-150 && mag <= 1e150) { Jones<double> L = (A / c) * B, R = (A * B) / c;
        snprintf (what, 200, "(A / c) B = (A B) / c for c = %g * (%g, %g)", mag, d[0], d[1]);
        for (unsigned i=0; i<4; i++) expect_true (what, std::abs (L[i] - R[i]) <= 1e-13 * std::sqrt (norm (R))); } }
    Jones<float> F (cff (1, 2), cff (-3, 0.5f), cff (0.25f, -1), cff (2, 2));
    for (float mag : { 1e-35f, 1e-30f, 1e-25f, 1e-20f, 1e-10f, 1.0f, 1e10f, 1e19f, 1e20f, 1e25f, 1e30f, 1e35f }) for (auto& d : dirs) {
      cff c (mag * float (d[0]), mag * float (d[1])); Jones<float> Q = F / c; char what[200];
      for (unsigned i=0; i<4; i++) { cff wq = F[i] / c;
        snprintf (what, 200, "single precision: (J / c)[%u] = J[%u] / c for c = %g * (%g, %g)", i, i, double (mag), d[0], d[1]);
        expect_true (what, std::abs (Q[i] - wq) <= 1e-5f * std::abs (wq)); } }
    // the inverse of well-conditioned matrices of extreme and mixed magnitudes is two-sided (det <> 0 and representable)
    for (double mag : { 1e-140, 1e-100, 1e-77, 1e-10, 1.0, 1e10, 1e77, 1e100, 1e140 }) { Jones<double> S = A; S *= mag; Jones<double> Si = inv (S), L = Si * S, R = S * Si; char what[200];
      for (unsigned i=0; i<4; i++) { cdd id = (i == 0 || i == 3) ? cdd (1.0) : cdd (0.0);
        snprintf (what, 200, "inv (J) J = 1 for J of magnitude %g, element %u", mag, i); expect_true (what, std::abs (L[i] - id) <= 1e-13);
        snprintf (what, 200, "J inv (J) = 1 for J of magnitude %g, element %u", mag, i); expect_true (what, std::abs (R[i] - id) <= 1e-13); } }
    { Jones<double> D (cdd (1e200, 1e200), cdd (0.0), cdd (0.0), cdd (1e-30, -2e-30)); Jones<double> Di = inv (D), L = Di * D;
      expect_true ("inv of diag (1e200 (1+i), 1e-30 (1-2i)) is two-sided", std::abs (L[0] - cdd (1.0)) <= 1e-13 && std::abs (L[3] - cdd (1.0)) <= 1e-13 && std::abs (L[1]) <= 1e-13 && std::abs (L[2]) <= 1e-13); }
    for (float mag : { 1e-15f, 1e-12f, 1e-6f, 1.0f, 1e6f, 1e12f, 1e15f }) { Jones<float> S = F; S *= mag; Jones<float> Si = inv (S), L = Si * S; char what[200];
      for (unsigned i=0; i<4; i++) { cff id = (i == 0 || i == 3) ? cff (1.0f) : cff (0.0f);
        snprintf (what, 200, "single precision: inv (J) J = 1 for J of magnitude %g, element %u", double (mag), i); expect_true (what, std::abs (L[i] - id) <= 1e-4f); } }
    // real scalars
    for (double r : { 1e-300, 1e-200, 1e-160, 1e160, 1e200, 1e300, -1e-200, -1e200 }) { Jones<double> Q = A / r; char what[200];
      for (unsigned i=0; i<4; i++) { snprintf (what, 200, "(J / r)[%u] = J[%u] / r for r = %g", i, i, r); expect_true (what, std::abs (Q[i] - A[i] / r) <= 1e-14 * std::abs (A[i] / r)); } }
  }, 1);
#endif
  symx::finish ();
  return 0;
}
