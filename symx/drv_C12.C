// Driver for C12: weighted-mean accumulators (MeanEstimate, MeanRadian).
#include "Estimate.h"
#include "sym_or_plain.h"
using namespace symx;

// MeanRadian keeps its accumulators protected: observe them through get_cos/get_sin
// (estimates) and through a subclass that exposes the raw state
struct OpenRadian : public MeanRadian<double,double> {
  OpenRadian () { }
  OpenRadian (const Estimate<double>& d) : MeanRadian<double,double> (d) { }
  const MeanEstimate<double>& C () const { return cosine; }
  const MeanEstimate<double>& S () const { return sine; }
  void set (double cn, double ci, double sn, double si) { cosine = MeanEstimate<double> (cn, ci); sine = MeanEstimate<double> (sn, si); }
};
static void out_state (const OpenRadian& r)
{ out ("cn", r.C().norm_val); out ("ci", r.C().inv_var); out ("sn", r.S().norm_val); out ("si", r.S().inv_var); }

int main (int argc, char** argv)
{
  symx::init ("C12", argc > 1 ? argv[1] : ".");

  fn_paths ("mean_add_est", [] { double nv = in ("nv"), iv = in ("iv", 0.5, 2), x = in ("x"), v = in ("v", 0.5, 2);
    MeanEstimate<double> m (nv, iv); m += Estimate<double> (x, v); out ("nv", m.norm_val); out ("iv", m.inv_var); });
  fn ("mean_merge", [] { double nv = in ("nv"), iv = in ("iv", 0.5, 2), nw = in ("nw"), iw = in ("iw", 0.5, 2);
    MeanEstimate<double> m (nv, iv), o (nw, iw); m += o; out ("nv", m.norm_val); out ("iv", m.inv_var); });
  fn_paths ("mean_get", [] { double nv = in ("nv"), iv = in ("iv", 0.5, 2);
    MeanEstimate<double> m (nv, iv); Estimate<double> e = m.get_Estimate (); out ("val", e.val); out ("var", e.var); });
  fn_paths ("mean_from_est", [] { double x = in ("x"), v = in ("v", 0.5, 2);
    MeanEstimate<double> m (Estimate<double> (x, v)); out ("nv", m.norm_val); out ("iv", m.inv_var); });
  fn ("mean_default", [] { MeanEstimate<double> m; Estimate<double> e = m.get_Estimate (); out ("nv", m.norm_val); out ("iv", m.inv_var); out ("val", e.val); out ("var", e.var); }, 1);
  // sequences of insertions (the path with all variances non-zero) and a merge tree
  fn ("mean_seq3", [] { double x1 = in ("x1"), v1 = in ("v1", 0.5, 2), x2 = in ("x2"), v2 = in ("v2", 0.5, 2), x3 = in ("x3"), v3 = in ("v3", 0.5, 2);
    MeanEstimate<double> m; m += Estimate<double> (x1, v1); m += Estimate<double> (x2, v2); m += Estimate<double> (x3, v3);
    Estimate<double> e = m.get_Estimate ();
    out ("nv", m.norm_val); out ("iv", m.inv_var); out ("val", e.val); out ("var", e.var);
    // a different order and grouping: (x3) merged with (x2, x1)
    MeanEstimate<double> a (Estimate<double> (x3, v3)), b; b += Estimate<double> (x2, v2); b += Estimate<double> (x1, v1); a += b;
    Estimate<double> f = a.get_Estimate ();
    out ("nv2", a.norm_val); out ("iv2", a.inv_var); out ("val2", f.val); out ("var2", f.var);
    if (!symbolic) { expect ("order/grouping independence (value)", e.val, f.val); expect ("order/grouping independence (variance)", e.var, f.var);
      double W = 1/v1 + 1/v2 + 1/v3; expect ("weighted mean", e.val, (x1/v1 + x2/v2 + x3/v3)/W); expect ("variance = 1/sum(1/v)", e.var, 1/W); } });
  // zero-variance entries carry no weight (concrete zero: the literal is a fact, not a decision)
  fn ("mean_zero_var", [] { double x1 = in ("x1"), v1 = in ("v1", 0.5, 2), x2 = in ("x2");
    MeanEstimate<double> m; m += Estimate<double> (x1, v1); m += Estimate<double> (x2, 0.0);
    out ("nv", m.norm_val); out ("iv", m.inv_var); });

  // circular mean
  fn_paths ("mr_assign", [] { double x = in ("x"), v = in ("v", 0.5, 2);
    OpenRadian r (Estimate<double> (x, v)); out_state (r); });
  fn_paths ("mr_add_est", [] { double cn = in ("cn"), ci = in ("ci", 0.5, 2), sn = in ("sn"), si = in ("si", 0.5, 2), x = in ("x"), v = in ("v", 0.5, 2);
    OpenRadian r; r.set (cn, ci, sn, si); r += Estimate<double> (x, v); out_state (r); });
  fn ("mr_merge", [] { double cn = in ("cn"), ci = in ("ci", 0.5, 2), sn = in ("sn"), si = in ("si", 0.5, 2), dn = in ("dn"), di = in ("di", 0.5, 2), tn = in ("tn"), ti = in ("ti", 0.5, 2);
    OpenRadian r, o; r.set (cn, ci, sn, si); o.set (dn, di, tn, ti); r += o; out_state (r); });
  fn_paths ("mr_get", [] { double cn = in ("cn"), ci = in ("ci", 0.5, 2), sn = in ("sn"), si = in ("si", 0.5, 2);
    OpenRadian r; r.set (cn, ci, sn, si); Estimate<double> e = r.get_Estimate ();
    Estimate<double> c = r.get_cos (), s = r.get_sin ();
    out ("val", e.val); out ("cosv", c.val); out ("sinv", s.val); }, 8, 64);
  // a single generic angle: the result is atan2 of (sin x, cos x)
  fn ("mr_single", [] { double x = in ("x", 0.2, 1.3), v = in ("v", 0.5, 2);
    OpenRadian r (Estimate<double> (x, v)); Estimate<double> e = r.get_Estimate ();
    out ("val", e.val);
    if (!symbolic) expect ("circular mean of a single angle is that angle", e.val, x, 1e-9); });
  // the same at the angle pi (concrete): the known defect -- plain-build oracle only
#ifndef SYMX_SYMBOLIC
  fn ("mr_single_pi_plain", [] { OpenRadian r (Estimate<double> (M_PI, 0.01)); Estimate<double> e = r.get_Estimate ();
    expect ("circular mean of the single angle pi points in direction pi", std::fabs (e.val), M_PI, 1e-6); }, 1);
#endif

#ifndef SYMX_SYMBOLIC
  // long sequences (the ties use sequences of up to three entries): insertion order and grouping change the result
  // only by rounding, and the result is the weighted mean with variance 1 / sum of weights; zero-valued, cancelling
  // and zero-variance entries included
  fn ("long_sequence_plain", [] {
    uint64_t st = 31; auto rnd = [&st] () { st = st * 6364136223846793005ULL + 1442695040888963407ULL; return double ((st >> 33) % 2000001) / 1e6 - 1.0; };
    for (unsigned n : { 10u, 257u, 5000u }) { std::vector< Estimate<double> > xs;
      for (unsigned k=0; k<n; k++) { double v = (k % 7 == 3) ? 0.0 : 10 * rnd (); double var = (k % 11 == 5) ? 0.0 : 0.01 + std::fabs (rnd ()); xs.push_back (Estimate<double> (v, var)); }
      xs.push_back (Estimate<double> (2.0, 1.0)); xs.push_back (Estimate<double> (-2.0, 1.0));           // a cancelling pair
      double sw = 0, swx = 0; for (auto& e : xs) if (e.var != 0) { sw += 1 / e.var; swx += e.val / e.var; }
      MeanEstimate<double> fwd, rev, tree; for (auto& e : xs) fwd += e; for (unsigned k=xs.size (); k>0; k--) rev += xs[k-1];
      { std::vector< MeanEstimate<double> > parts; for (unsigned k=0; k<xs.size (); k+=2) { MeanEstimate<double> p; p += xs[k]; if (k+1 < xs.size ()) p += xs[k+1]; parts.push_back (p); }
        while (parts.size () > 1) { std::vector< MeanEstimate<double> > nx; for (unsigned k=0; k<parts.size (); k+=2) { MeanEstimate<double> p = parts[k]; if (k+1 < parts.size ()) p += parts[k+1]; nx.push_back (p); } parts = nx; }
        tree = parts[0]; }
      char what[160]; Estimate<double> f = fwd.get_Estimate (), r = rev.get_Estimate (), t = tree.get_Estimate ();
      snprintf (what, 160, "%u estimates: forward insertion gives the weighted mean", n); expect (what, f.val, swx / sw, 1e-10); expect (std::string (what) + " (variance)", f.var, 1 / sw, 1e-10);
      snprintf (what, 160, "%u estimates: reverse insertion agrees with forward insertion", n); expect (what, r.val, f.val, 1e-10); expect (std::string (what) + " (variance)", r.var, f.var, 1e-10);
      snprintf (what, 160, "%u estimates: a binary merge tree agrees with one-at-a-time insertion", n); expect (what, t.val, f.val, 1e-10); expect (std::string (what) + " (variance)", t.var, f.var, 1e-10);
      // the same through the converting constructors (an accumulator built from one estimate, then merged)
      { MeanEstimate<double> viaCtor; for (auto& e : xs) { MeanEstimate<double> one (e); viaCtor += one; }
        Estimate<double> c = viaCtor.get_Estimate ();
        snprintf (what, 160, "%u estimates: merging accumulators constructed from single estimates agrees with insertion", n); expect (what, c.val, f.val, 1e-10); expect (std::string (what) + " (variance)", c.var, f.var, 1e-10); }
      // circular mean of angles clustered around a direction away from the multiples of pi/2 (those are the known finding)
      std::vector< Estimate<double> > as; for (unsigned k=0; k<n; k++) as.push_back (Estimate<double> (0.7 + 0.3 * rnd () + 2 * M_PI * int (3 * rnd ()), 0.01 + std::fabs (rnd ())));
      as.push_back (Estimate<double> (0.7 + 0.3, 0.5)); as.push_back (Estimate<double> (0.7 - 0.3, 0.5));
      MeanRadian<double,double> cf, cr, ct1, ct2; for (auto& e : as) cf += e; for (unsigned k=as.size (); k>0; k--) cr += as[k-1];
      for (unsigned k=0; k<as.size (); k++) { if (k % 2) ct1 += as[k]; else ct2 += as[k]; } ct1 += ct2;
      { MeanRadian<double,double> cc; for (auto& e : as) { MeanRadian<double,double> one (e); cc += one; } Estimate<double> a4 = cc.get_Estimate (), a1b = cf.get_Estimate ();
        snprintf (what, 160, "%u angles: merging accumulators constructed from single angles agrees with insertion", n); expect (what, a4.val, a1b.val, 1e-10); expect (std::string (what) + " (variance)", a4.var, a1b.var, 1e-10); }
      Estimate<double> a1 = cf.get_Estimate (), a2 = cr.get_Estimate (), a3 = ct1.get_Estimate ();
      snprintf (what, 160, "%u angles: reverse insertion agrees with forward insertion", n); expect (what, a2.val, a1.val, 1e-10); expect (std::string (what) + " (variance)", a2.var, a1.var, 1e-10);
      snprintf (what, 160, "%u angles: merging two halves agrees with one-at-a-time insertion", n); expect (what, a3.val, a1.val, 1e-10); expect (std::string (what) + " (variance)", a3.var, a1.var, 1e-10);
    } }, 1);
  // an accumulator constructed from (or assigned) a single estimate behaves as an empty accumulator to which it was added:
  // zero-variance entries carry no weight, and a single small angle (cosine exactly 1) keeps a finite circular mean
  fn ("single_entry_paths_plain", [] {
    { MeanEstimate<double> a (Estimate<double> (3.0, 0.0)); a += Estimate<double> (1.0, 1.0); Estimate<double> r = a.get_Estimate ();
      expect ("accumulator constructed from a zero-variance estimate, then 1 +- 1: value", r.val, 1.0); expect ("... variance", r.var, 1.0); }
    { MeanEstimate<double> a; a = Estimate<double> (3.0, 0.0); MeanEstimate<double> b (Estimate<double> (2.0, 0.5)); b += a; Estimate<double> r = b.get_Estimate ();
      expect ("merging an accumulator assigned a zero-variance estimate changes nothing: value", r.val, 2.0); expect ("... variance", r.var, 0.5); }
    { MeanEstimate<double> a (Estimate<double> (0.0, 0.0)); Estimate<double> r = a.get_Estimate (); expect ("accumulator holding only a zero-variance entry: value 0", r.val, 0.0); expect ("... variance 0", r.var, 0.0); }
    for (double ang : { 0.0, 1e-9, -1e-9, 1e-3 }) { MeanRadian<double,double> viaCtor (Estimate<double> (ang, 0.01)); MeanRadian<double,double> viaAdd; viaAdd += Estimate<double> (ang, 0.01);
      Estimate<double> r1 = viaCtor.get_Estimate (), r2 = viaAdd.get_Estimate (); char what[160];
      snprintf (what, 160, "circular mean of the single angle %g: constructed = inserted", ang); expect (what, r1.val, r2.val); expect_true (std::string (what) + " (finite)", std::isfinite (r1.val) && std::isfinite (r1.var)); }
  }, 1);
#endif
  symx::finish ();
  return 0;
}
