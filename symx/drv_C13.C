// Driver for C13: fixed-size vectors and matrices obey the laws of linear algebra.
#include "Matrix.h"
#include "Dirac.h"
#include "drv_common.h"
using namespace symx;
typedef std::complex<double> cd;

template<unsigned R, unsigned C> static Matrix<R,C,double> mat_in (const std::string& p)
{ Matrix<R,C,double> m; for (unsigned i=0; i<R; i++) for (unsigned j=0; j<C; j++) m[i][j] = in (nm (p, i, j).c_str()); return m; }
template<unsigned R, unsigned C> static Matrix<R,C,cd> cmat_in (const std::string& p)
{ Matrix<R,C,cd> m; for (unsigned i=0; i<R; i++) for (unsigned j=0; j<C; j++) m[i][j] = complex_in (nm (p, i, j)); return m; }
template<unsigned N> static Vector<N,double> vec_in (const std::string& p)
{ Vector<N,double> v; for (unsigned i=0; i<N; i++) v[i] = in (nm (p, i).c_str()); return v; }
template<unsigned R, unsigned C> static void out_m (const std::string& p, const Matrix<R,C,double>& m)
{ for (unsigned i=0; i<R; i++) for (unsigned j=0; j<C; j++) out (nm (p, i, j), m[i][j]); }
template<unsigned R, unsigned C> static void out_cm (const std::string& p, const Matrix<R,C,cd>& m)
{ for (unsigned i=0; i<R; i++) for (unsigned j=0; j<C; j++) out (nm (p, i, j), m[i][j]); }
template<unsigned R, unsigned C> static void cmp_m (const std::string& what, const Matrix<R,C,double>& a, const Matrix<R,C,double>& b)
{ if (!symbolic) for (unsigned i=0; i<R; i++) for (unsigned j=0; j<C; j++) expect (what, a[i][j], b[i][j]); }

#ifndef SYMX_SYMBOLIC
// shapes up to 6x6 against naive reference loops, and exact behaviour under power-of-two scaling
static uint64_t lcg13 = 4242;
static double rnd13 () { lcg13 = lcg13 * 6364136223846793005ULL + 1442695040888963407ULL; return double (int ((lcg13 >> 33) % 4001) - 2000) / 512.0; }
template<unsigned R, unsigned C> static Matrix<R,C,double> rmat () { Matrix<R,C,double> m; for (unsigned i=0; i<R; i++) for (unsigned j=0; j<C; j++) m[i][j] = rnd13 (); return m; }
template<unsigned R, unsigned K, unsigned C> static void shape_product (const char* tag)
{
  Matrix<R,K,double> a = rmat<R,K> (); Matrix<K,C,double> b = rmat<K,C> (); Matrix<R,C,double> p = a * b; char what[200];
  for (unsigned i=0; i<R; i++) for (unsigned j=0; j<C; j++) { double w = 0; for (unsigned k=0; k<K; k++) w += a[i][k] * b[k][j];
    snprintf (what, 200, "%s: (%ux%u)(%ux%u) product element [%u][%u]", tag, R, K, K, C, i, j); expect (what, p[i][j], w, 1e-12); }
  Matrix<C,R,double> pt = transpose (p), bt_at = transpose (b) * transpose (a);
  for (unsigned i=0; i<C; i++) for (unsigned j=0; j<R; j++) { snprintf (what, 200, "%s: transpose reverses the (%ux%u)(%ux%u) product", tag, R, K, K, C); expect (what, pt[i][j], bt_at[i][j], 1e-12); }
  Vector<K,double> v; for (unsigned k=0; k<K; k++) v[k] = rnd13 (); Vector<R,double> av = a * v;
  for (unsigned i=0; i<R; i++) { double w = 0; for (unsigned k=0; k<K; k++) w += a[i][k] * v[k]; snprintf (what, 200, "%s: (%ux%u) matrix times vector, element %u", tag, R, K, i); expect (what, av[i], w, 1e-12); }
  Vector<R,double> u; for (unsigned i=0; i<R; i++) u[i] = rnd13 (); Vector<K,double> ua = u * a;
  for (unsigned k=0; k<K; k++) { double w = 0; for (unsigned i=0; i<R; i++) w += u[i] * a[i][k]; snprintf (what, 200, "%s: vector times (%ux%u) matrix, element %u", tag, R, K, k); expect (what, ua[k], w, 1e-12); }
  // homogeneity: scaling both factors by 2^e scales the product by 2^(2e) exactly
  for (int e : { -300, -100, 100, 300 }) { double sc = std::ldexp (1.0, e), sc2 = std::ldexp (1.0, 2*e); Matrix<R,K,double> as = a; as *= sc; Matrix<K,C,double> bs = b; bs *= sc; Matrix<R,C,double> ps = as * bs;
    snprintf (what, 200, "%s: (%ux%u)(%ux%u) product of operands scaled by 2^%d is the product scaled by 2^%d, exactly", tag, R, K, K, C, e, 2*e);
    bool ok = true; for (unsigned i=0; i<R; i++) for (unsigned j=0; j<C; j++) ok = ok && ps[i][j] == p[i][j] * sc2; expect_true (what, ok); }
}
template<unsigned N> static void shape_inverse (const char* tag, int pattern)
{
  Matrix<N,N,double> a = rmat<N,N> (); char what[200];
  if (pattern == 1) for (unsigned i=0; i<N; i++) for (unsigned j=0; j<N; j++) a[i][j] = (j == (i + 1) % N) ? 2.0 + i : 0.0;       // permutation-like: every pivot needs an exchange
  if (pattern == 2) for (unsigned i=0; i<N; i++) a[i][i] = 0.0;                                                                 // zero diagonal
  if (pattern == 3) for (unsigned i=0; i<N; i++) for (unsigned j=0; j<N; j++) a[i][j] = (i == j ? 4.0 : 0.0) + double ((i * 7 + j * 3) % 5) - 2.0;   // small integers
  Matrix<N,N,double> ai = inv (a), l = ai * a, r = a * ai;
  for (unsigned i=0; i<N; i++) for (unsigned j=0; j<N; j++) { snprintf (what, 200, "%s %ux%u pattern %d: inv(A) A = 1 [%u][%u]", tag, N, N, pattern, i, j); expect (what, l[i][j], i == j ? 1.0 : 0.0, 1e-9);
    snprintf (what, 200, "%s %ux%u pattern %d: A inv(A) = 1 [%u][%u]", tag, N, N, pattern, i, j); expect (what, r[i][j], i == j ? 1.0 : 0.0, 1e-9); }
  for (int e : { -900, -700, -560, -300, -100, 100, 300, 560, 700, 900 }) { double sc = std::ldexp (1.0, e), si = std::ldexp (1.0, -e); Matrix<N,N,double> as = a; as *= sc; Matrix<N,N,double> ais = inv (as);
    snprintf (what, 200, "%s %ux%u pattern %d: the inverse of A scaled by 2^%d is inv(A) scaled by 2^%d, exactly", tag, N, N, pattern, e, -e);
    bool ok = true; for (unsigned i=0; i<N; i++) for (unsigned j=0; j<N; j++) ok = ok && ais[i][j] == ai[i][j] * si; expect_true (what, ok); }
}
template<unsigned R, unsigned C, unsigned P, unsigned Q> static void shape_direct (const char* tag)
{
  Matrix<R,C,double> a = rmat<R,C> (); Matrix<P,Q,double> b = rmat<P,Q> (); Matrix<R*P,C*Q,double> d = direct (a, b); char what[200];
  for (unsigned i=0; i<R; i++) for (unsigned j=0; j<C; j++) for (unsigned k=0; k<P; k++) for (unsigned l=0; l<Q; l++) {
    snprintf (what, 200, "%s: Kronecker product (%ux%u)x(%ux%u) element", tag, R, C, P, Q); expect (what, d[i*P+k][j*Q+l], a[i][j] * b[k][l], 1e-12); }
}
template<unsigned U, unsigned L, unsigned B, unsigned R> static void shape_partition (const char* tag)
{
  Matrix<U+B,L+R,double> a = rmat<U+B,L+R> (); Matrix<U,L,double> ul; Matrix<U,R,double> ur; Matrix<B,L,double> bl; Matrix<B,R,double> br; char what[200];
  partition<U,L,B,R> (a, ul, ur, bl, br);
  snprintf (what, 200, "%s: partition of a %ux%u matrix at (%u,%u): each block is the corresponding submatrix", tag, U+B, L+R, U, L);
  for (unsigned i=0; i<U+B; i++) for (unsigned j=0; j<L+R; j++) { double blk = i < U ? (j < L ? ul[i][j] : ur[i][j-L]) : (j < L ? bl[i-U][j] : br[i-U][j-L]); expect_true (what, blk == a[i][j]); }
  Matrix<U+B,L+R,double> r; compose<U,L,B,R> (r, ul, ur, bl, br);
  snprintf (what, 200, "%s: compose (partition (A)) = A for a %ux%u matrix split at (%u,%u)", tag, U+B, L+R, U, L);
  for (unsigned i=0; i<U+B; i++) for (unsigned j=0; j<L+R; j++) expect_true (what, r[i][j] == a[i][j]);
}
template<unsigned M> static void shape_partition_sym (const char* tag)
{
  Matrix<M+1,M+1,double> a = rmat<M+1,M+1> (); for (unsigned i=0; i<M+1; i++) for (unsigned j=0; j<i; j++) a[i][j] = a[j][i];
  double var; Vector<M,double> cv; Matrix<M,M,double> cm; partition (a, var, cv, cm); char what[200];
  snprintf (what, 200, "%s: symmetric partition of a %ux%u matrix", tag, M+1, M+1);
  expect_true (what, var == a[0][0]); for (unsigned j=0; j<M; j++) { expect_true (what, cv[j] == a[0][j+1]); for (unsigned i=0; i<M; i++) expect_true (what, cm[i][j] == a[i+1][j+1]); }
  Matrix<M+1,M+1,double> r; compose (r, var, cv, cm);
  snprintf (what, 200, "%s: symmetric compose (partition (A)) = A for a %ux%u matrix", tag, M+1, M+1);
  for (unsigned i=0; i<M+1; i++) for (unsigned j=0; j<M+1; j++) expect_true (what, r[i][j] == a[i][j]);
}
#endif

int main (int argc, char** argv)
{
  symx::init ("C13", argc > 1 ? argv[1] : ".");

  // entries of the basic operations at a rectangular shape (tied to explicit sums in Coq)
  fn ("mul_2x3_3x2", [] { Matrix<2,3,double> a = mat_in<2,3> ("a"); Matrix<3,2,double> b = mat_in<3,2> ("b"); out_m ("r", a * b); });
  fn ("mulvec_2x3", [] { Matrix<2,3,double> a = mat_in<2,3> ("a"); Vector<3,double> v = vec_in<3> ("v"); out_vec<2> ("r", a * v); });
  fn ("vecmul_2x3", [] { Matrix<2,3,double> a = mat_in<2,3> ("a"); Vector<2,double> v = vec_in<2> ("v"); out_vec<3> ("r", v * a); });
  fn ("transpose_2x3", [] { Matrix<2,3,double> a = mat_in<2,3> ("a"); out_m ("r", transpose (a)); });
  fn ("herm_2x2c", [] { Matrix<2,2,cd> a = cmat_in<2,2> ("a"); out_cm ("r", herm (a)); });
  fn ("trace_3", [] { Matrix<3,3,double> a = mat_in<3,3> ("a"); out ("r", trace (a)); });
  fn ("outer_2_3", [] { Vector<2,double> a = vec_in<2> ("a"); Vector<3,double> b = vec_in<3> ("b"); out_m ("r", outer (a, b)); });
  fn ("dot_cross_3", [] { Vector<3,double> a = vec_in<3> ("a"), b = vec_in<3> ("b"); out ("dot", a * b); out_vec<3> ("x", cross (a, b)); out ("nsq", normsq (a)); });
  fn ("direct_2x2_2x2", [] { Matrix<2,2,double> a = mat_in<2,2> ("a"), b = mat_in<2,2> ("b"); out_m ("r", direct (a, b)); });
  fn ("direct_2x3_1x2", [] { Matrix<2,3,double> a = mat_in<2,3> ("a"); Matrix<1,2,double> b = mat_in<1,2> ("b"); out_m ("r", direct (a, b)); });
  fn ("scalar_ctor_2x3", [] { double s = in ("s"); out_m ("r", Matrix<2,3,double> (s)); });
  fn ("scalar_ctor_3x3", [] { double s = in ("s"); out_m ("r", Matrix<3,3,double> (s)); });
  fn ("identity_3", [] { Matrix<3,3,double> m; matrix_identity (m); out_m ("r", m); }, 1);
  fn ("vector_ops_3", [] { Vector<3,double> a = vec_in<3> ("a"), b = vec_in<3> ("b"); double c = in ("c", 0.5, 2);
    out_vec<3> ("add", a + b); out_vec<3> ("sub", a - b); out_vec<3> ("mul", a * c); out_vec<3> ("lmul", c * a); out_vec<3> ("div", a / c); out_vec<3> ("neg", -a); });
  fn ("dirac_12", [] { out_cm ("r", Dirac::matrix (1, 2)); }, 1);

  // laws, both sides computed by the code (first half = left-hand side)
  fn ("law_assoc", [] { Matrix<2,3,double> a = mat_in<2,3> ("a"); Matrix<3,2,double> b = mat_in<3,2> ("b"); Matrix<2,3,double> c = mat_in<2,3> ("c");
    out_m ("g", (a * b) * c); out_m ("w", a * (b * c)); cmp_m ("(AB)C = A(BC)", (a * b) * c, a * (b * c)); });
  fn ("law_distrib", [] { Matrix<2,3,double> a = mat_in<2,3> ("a"); Matrix<3,2,double> b = mat_in<3,2> ("b"), c = mat_in<3,2> ("c");
    Matrix<3,2,double> bc = b; bc += c; Matrix<2,2,double> r = a * b; r += a * c;
    out_m ("g", a * bc); out_m ("w", r); cmp_m ("A(B+C) = AB+AC", a * bc, r); });
  fn ("law_matvec", [] { Matrix<2,3,double> a = mat_in<2,3> ("a"); Matrix<3,2,double> b = mat_in<3,2> ("b"); Vector<2,double> v = vec_in<2> ("v");
    out_vec<2> ("g", (a * b) * v); out_vec<2> ("w", a * (b * v)); });
  fn ("law_vecmat_transpose", [] { Matrix<2,3,double> a = mat_in<2,3> ("a"); Vector<2,double> v = vec_in<2> ("v");
    out_vec<3> ("g", v * a); out_vec<3> ("w", transpose (a) * v); });
  fn ("law_transpose_product", [] { Matrix<2,3,double> a = mat_in<2,3> ("a"); Matrix<3,2,double> b = mat_in<3,2> ("b");
    out_m ("g", transpose (a * b)); out_m ("w", transpose (b) * transpose (a)); });
  fn ("law_herm_product", [] { Matrix<2,2,cd> a = cmat_in<2,2> ("a"), b = cmat_in<2,2> ("b");
    out_cm ("g", herm (a * b)); out_cm ("w", herm (b) * herm (a)); });
  fn ("law_trace_cyclic", [] { Matrix<2,3,double> a = mat_in<2,3> ("a"); Matrix<3,2,double> b = mat_in<3,2> ("b");
    out ("g", trace (a * b)); out ("w", trace (b * a)); });
  fn ("law_outer_trace_dot", [] { Vector<3,double> a = vec_in<3> ("a"), b = vec_in<3> ("b");
    out ("g", trace (outer (a, b))); out ("w", a * b); });
  fn ("law_cross", [] { Vector<3,double> a = vec_in<3> ("a"), b = vec_in<3> ("b"), c = vec_in<3> ("c");
    Vector<3,double> x = cross (a, b), y = cross (b, a);
    // antisymmetry, orthogonality, triple product cyclic, Lagrange identity
    out_vec<3> ("g_anti", x); out ("g_orth_a", a * x); out ("g_orth_b", b * x); out ("g_triple", a * cross (b, c)); out ("g_lagrange", normsq (x));
    out_vec<3> ("w_anti", -y); double zero = 0.0; out ("w_orth_a", zero); out ("w_orth_b", zero); out ("w_triple", c * cross (a, b)); out ("w_lagrange", normsq (a) * normsq (b) - (a * b) * (a * b)); });
  fn ("law_kronecker_mixed", [] { Matrix<2,2,double> a = mat_in<2,2> ("a"), b = mat_in<2,2> ("b"), c = mat_in<2,2> ("c"), d = mat_in<2,2> ("d");
    out_m ("g", direct (a, b) * direct (c, d)); out_m ("w", direct (a * c, b * d)); cmp_m ("(A(x)B)(C(x)D) = AC(x)BD", direct (a, b) * direct (c, d), direct (a * c, b * d)); });
  fn ("law_kronecker_rect", [] { Matrix<1,2,double> a = mat_in<1,2> ("a"); Matrix<2,1,double> b = mat_in<2,1> ("b"); Matrix<2,1,double> c = mat_in<2,1> ("c"); Matrix<1,2,double> d = mat_in<1,2> ("d");
    out_m ("g", direct (a, b) * direct (c, d)); out_m ("w", direct (a * c, b * d)); });
  fn ("law_partition_compose", [] { Matrix<3,4,double> a = mat_in<3,4> ("a");
    Matrix<1,3,double> ul; Matrix<1,1,double> ur; Matrix<2,3,double> bl; Matrix<2,1,double> br;
    partition (a, ul, ur, bl, br);
    Matrix<3,4,double> r; compose (r, ul, ur, bl, br);
    out_m ("g", r); out_m ("w", a); out_m ("ul", ul); out_m ("ur", ur); out_m ("bl", bl); out_m ("br", br); });
  fn ("law_partition_compose_sym", [] { Matrix<3,3,double> a = mat_in<3,3> ("a");
    double var; Vector<2,double> cv; Matrix<2,2,double> cm; partition (a, var, cv, cm);
    out ("var", var); out_vec<2> ("cv", cv); out_m ("cm", cm);
    Matrix<3,3,double> r; compose (r, var, cv, cm); out_m ("r", r); });

  // mixed element types (single with double precision, real with complex): conversions and the mixed operations that compile
  fn ("mixed_vec_add_f_d", [] { Vector<3,double> a = vec_in<3> ("a"), b = vec_in<3> ("b"); Vector<3,float> af; for (unsigned i=0; i<3; i++) af[i] = float (a[i]);
    Vector<3,double> g = af + b, h = b + af; out_vec<3> ("g", g); out_vec<3> ("h", h);
    Vector<3,double> w; for (unsigned i=0; i<3; i++) w[i] = double (af[i]) + b[i]; out_vec<3> ("w", w); out_vec<3> ("w2", w);
    if (!symbolic) for (unsigned i=0; i<3; i++) { expect ("single + double vector", g[i], w[i], 1e-6); expect ("double + single vector", h[i], w[i], 1e-6); } });
  fn ("mixed_mat_add_d_f", [] { Matrix<2,2,double> a = mat_in<2,2> ("a"), b = mat_in<2,2> ("b"); Matrix<2,2,float> bf; for (unsigned i=0; i<2; i++) for (unsigned j=0; j<2; j++) bf[i][j] = float (b[i][j]);
    Matrix<2,2,double> g = a + bf; out_m ("g", g); Matrix<2,2,double> w; for (unsigned i=0; i<2; i++) for (unsigned j=0; j<2; j++) w[i][j] = a[i][j] + double (bf[i][j]); out_m ("w", w);
    if (!symbolic) for (unsigned i=0; i<2; i++) for (unsigned j=0; j<2; j++) expect ("double + single matrix", g[i][j], w[i][j], 1e-6); });
  fn ("mixed_scale_vec_f", [] { Vector<3,double> a = vec_in<3> ("a"); double r = in ("r"); Vector<3,float> af; for (unsigned i=0; i<3; i++) af[i] = float (a[i]);
    Vector<3,double> g = r * af; out_vec<3> ("g", g); Vector<3,double> w; for (unsigned i=0; i<3; i++) w[i] = r * double (af[i]); out_vec<3> ("w", w);
    if (!symbolic) for (unsigned i=0; i<3; i++) expect ("double * single vector", g[i], w[i], 1e-6); });
  fn ("mixed_mat_vec_d_c", [] { Matrix<2,2,double> a = mat_in<2,2> ("a"); Vector<2,cd> v; v[0] = complex_in ("v0"); v[1] = complex_in ("v1");
    Vector<2,cd> g = a * v; out ("g0", g[0]); out ("g1", g[1]);
    cd w0 = a[0][0] * v[0] + a[0][1] * v[1], w1 = a[1][0] * v[0] + a[1][1] * v[1]; out ("w0", w0); out ("w1", w1);
    if (!symbolic) { expect ("real matrix times complex vector, element 0", g[0], w0); expect ("element 1", g[1], w1); } });
  fn ("promote_vec_mat_d_c", [] { Vector<3,double> a = vec_in<3> ("a"); Matrix<2,2,double> m = mat_in<2,2> ("m"); Vector<3,cd> ac (a); Matrix<2,2,cd> mc (m);
    for (unsigned i=0; i<3; i++) out (nm ("g", i), ac[i]); out_cm ("gm", mc);
    for (unsigned i=0; i<3; i++) out (nm ("w", i), cd (a[i])); for (unsigned i=0; i<2; i++) for (unsigned j=0; j<2; j++) out (nm ("wm", i, j), cd (m[i][j]));
    if (!symbolic) { for (unsigned i=0; i<3; i++) expect ("complex vector from a real vector", ac[i], cd (a[i])); for (unsigned i=0; i<2; i++) for (unsigned j=0; j<2; j++) expect ("complex matrix from a real matrix", mc[i][j], cd (m[i][j])); } });
  // Gauss-Jordan inverse: every pivot path at N = 2 (real), with inv(A) A and A inv(A)
  fn_paths ("gj2", [] { Matrix<2,2,double> a = mat_in<2,2> ("a");
    Matrix<2,2,double> ai = inv (a);
    out_m ("inv", ai); out_m ("l", ai * a); out_m ("r", a * ai);
    out ("det", a[0][0]*a[1][1] - a[0][1]*a[1][0]); }, 16, 1024);
  // Gauss-Jordan at N = 3: one concolic run steered into each of the 36 orders in which full pivoting can visit rows and columns
  for (int s=0; s<6; s++) for (int t=0; t<6; t++) {
    static const int perms3[6][3] = { {0,1,2}, {0,2,1}, {1,0,2}, {1,2,0}, {2,0,1}, {2,1,0} };
    char name[32]; snprintf (name, 32, "gj3_o%d%d", s, t);
    fn (name, [=] {
      Matrix<3,3,double> a;
      for (unsigned i=0; i<3; i++) for (unsigned j=0; j<3; j++) {
        real_t v = real_t (0.05) + real_t (0.01) * real_t (int (3*i+j) * ((i+j)%2 ? -1 : 1));
        for (int r=0; r<3; r++) if (perms3[s][r] == int(i) && perms3[t][r] == int(j)) v = (r == 0) ? 4 : (r == 1) ? -2 : 1;
        a[i][j] = in_at (nm ("a", i, j).c_str(), v); }
      Matrix<3,3,double> ai = inv (a);
      out_m ("inv", ai); out_m ("l", ai * a); out_m ("r", a * ai);
      if (!symbolic) { Matrix<3,3,double> l = ai * a, r = a * ai;
        for (unsigned i=0; i<3; i++) for (unsigned j=0; j<3; j++) { expect ("inv(A) A = 1 (steered pivot order)", l[i][j], i == j ? 1.0 : 0.0, 1e-12); expect ("A inv(A) = 1 (steered pivot order)", r[i][j], i == j ? 1.0 : 0.0, 1e-12); } } }, 1);
  }
  // real and imaginary parts, conjugate, squared norm and comparisons of a complex vector
  fn ("complex_vector_parts", [] { Vector<3,cd> v; for (unsigned i=0; i<3; i++) v[i] = complex_in (nm ("v", i));
    Vector<3,double> re = real (v), im = imag (v); Vector<3,cd> c = conj (v);
    for (unsigned i=0; i<3; i++) out (nm ("re", i), re[i]); for (unsigned i=0; i<3; i++) out (nm ("im", i), im[i]); for (unsigned i=0; i<3; i++) out (nm ("c", i), c[i]);
    out ("nsq", normsq (v)); out ("nsqre", normsq (re)); out ("nrm2", norm (re) * norm (re));
    if (!symbolic) { for (unsigned i=0; i<3; i++) { expect ("real part of a complex vector", re[i], v[i].real ()); expect ("imaginary part of a complex vector", im[i], v[i].imag ()); expect ("conjugate of a complex vector", c[i], std::conj (v[i])); }
      expect_true ("a vector equals itself and differs from its negative", v == v && !(v != v) && (v != -v || normsq (v) == 0) && !(re == im && re != im)); } });
  // negation, zero() and the converting assignment of matrices
  fn ("matrix_negate_zero_assign", [] { Matrix<2,3,double> a = mat_in<2,3> ("a"); Matrix<2,3,double> n = -a, z = a; z.zero ();
    Matrix<2,3,cd> c; c = a; Matrix<2,3,cd> d (a);
    out_m ("n", n); out_m ("z", z); out_cm ("c", c); out_cm ("d", d);
    if (!symbolic) for (unsigned i=0; i<2; i++) for (unsigned j=0; j<3; j++) { expect ("negation of a matrix", n[i][j], -a[i][j]); expect ("zero()", z[i][j], 0.0);
      expect ("complex matrix assigned from a real matrix", c[i][j], cd (a[i][j])); expect ("complex matrix constructed from a real matrix", d[i][j], cd (a[i][j])); } });
  fn ("matrix_normsq", [] { Matrix<2,3,double> a = mat_in<2,3> ("a"); Matrix<3,2,double> b = mat_in<3,2> ("b"); Matrix<2,2,cd> c = cmat_in<2,2> ("c");
    out ("ns23", normsq (a)); out ("ns32", normsq (b)); out ("nsc", normsq (c));
    if (!symbolic) { double w = 0; for (unsigned i=0; i<2; i++) for (unsigned j=0; j<3; j++) w += a[i][j] * a[i][j]; expect ("normsq of a 2x3 matrix is the sum of squares", normsq (a), w);
      w = 0; for (unsigned i=0; i<3; i++) for (unsigned j=0; j<2; j++) w += b[i][j] * b[i][j]; expect ("normsq of a 3x2 matrix is the sum of squares", normsq (b), w);
      w = 0; for (unsigned i=0; i<2; i++) for (unsigned j=0; j<2; j++) w += std::norm (c[i][j]); expect ("normsq of a complex 2x2 matrix is the sum of squared moduli", normsq (c), cd (w)); } });
  fn ("gj3_run", [] { Matrix<3,3,double> a = mat_in<3,3> ("a");
    Matrix<3,3,double> ai = inv (a); out_m ("inv", ai);
    if (!symbolic) { Matrix<3,3,double> l = ai * a, r = a * ai;
      for (unsigned i=0; i<3; i++) for (unsigned j=0; j<3; j++) { expect ("inv(A) A = 1", l[i][j], i == j ? 1.0 : 0.0, 1e-7); expect ("A inv(A) = 1", r[i][j], i == j ? 1.0 : 0.0, 1e-7); } } });
#ifndef SYMX_SYMBOLIC
  // constructing a matrix of any shape from a scalar: leading diagonal = scalar, zero elsewhere, no
  // write outside the object (AddressSanitizer is on in this build)
  fn ("scalar_ctor_shapes_plain", [] {
    Matrix<3,2,double> a (5.0); Matrix<2,3,double> b (5.0); Matrix<4,1,double> c (5.0); Matrix<1,4,double> d (5.0);
    for (unsigned i=0; i<3; i++) for (unsigned j=0; j<2; j++) expect ("Matrix<3,2>(s)", a[i][j], i == j ? 5.0 : 0.0);
    for (unsigned i=0; i<2; i++) for (unsigned j=0; j<3; j++) expect ("Matrix<2,3>(s)", b[i][j], i == j ? 5.0 : 0.0);
    for (unsigned i=0; i<4; i++) expect ("Matrix<4,1>(s)", c[i][0], i == 0 ? 5.0 : 0.0);
    for (unsigned j=0; j<4; j++) expect ("Matrix<1,4>(s)", d[0][j], j == 0 ? 5.0 : 0.0); }, 1);
  // singular matrices whose elimination is exact are reported as singular
  fn ("gj_singular_plain", [] {
    const double mats[][9] = { {0,0,0, 1,2,3, 4,5,6}, {1,2,0, 3,4,0, 5,6,0}, {1,2,3, 2,4,6, 1,1,1}, {1,1,1, 1,1,1, 1,1,1}, {1,2,4, 2,4,8, 1,1,1}, {0,0,0,0,0,0,0,0,0} };
    for (auto& m : mats) { Matrix<3,3,double> a; for (unsigned i=0; i<3; i++) for (unsigned j=0; j<3; j++) a[i][j] = m[3*i+j];
      bool thrown = false; try { Matrix<3,3,double> b = inv (a); (void) b; } catch (std::exception&) { thrown = true; }
      char what[160]; snprintf (what, 160, "singular matrix [%g %g %g; %g %g %g; %g %g %g] is reported as singular", m[0],m[1],m[2],m[3],m[4],m[5],m[6],m[7],m[8]);
      expect_true (what, thrown); } }, 1);
  fn ("shapes_and_scales_plain", [] { lcg13 = 4242;
    shape_product<2,3,2> ("small"); shape_product<4,5,6> ("rect"); shape_product<6,6,6> ("6x6"); shape_product<1,6,1> ("row-col"); shape_product<6,1,6> ("col-row"); shape_product<5,2,5> ("thin"); shape_product<3,6,4> ("wide");
    for (int pat=0; pat<4; pat++) { shape_inverse<2> ("inverse", pat); shape_inverse<3> ("inverse", pat); shape_inverse<4> ("inverse", pat); shape_inverse<5> ("inverse", pat); shape_inverse<6> ("inverse", pat); }
    shape_partition<2,3,4,3> ("blocks"); shape_partition<1,1,5,5> ("blocks"); shape_partition<5,5,1,1> ("blocks"); shape_partition<3,1,2,4> ("blocks"); shape_partition<1,4,3,1> ("blocks"); shape_partition<2,2,2,2> ("blocks");
    shape_partition_sym<1> ("blocks"); shape_partition_sym<3> ("blocks"); shape_partition_sym<5> ("blocks");
    shape_direct<2,3,3,2> ("kron"); shape_direct<3,2,2,3> ("kron"); shape_direct<1,6,6,1> ("kron"); shape_direct<2,2,3,3> ("kron");
    { // single precision and complex elements at small and large magnitudes
      for (float sc : { 1e-25f, 1e-15f, 1.0f, 1e15f }) { Matrix<2,2,float> a; a[0][0] = sc; a[0][1] = sc; a[1][0] = sc; a[1][1] = 0; Matrix<2,2,float> ai = inv (a), p = ai * a; char what[160];
        snprintf (what, 160, "single precision [[s,s],[s,0]] with s = %g: inv(A) A = 1", double (sc)); for (unsigned i=0; i<2; i++) for (unsigned j=0; j<2; j++) expect_true (what, std::fabs (p[i][j] - (i == j ? 1.0f : 0.0f)) <= 1e-5f); }
      for (double sc : { 1e-170, 1e-100, 1.0, 1e100, 1e150 }) { Matrix<2,2,cd> a; a[0][0] = cd (sc, sc); a[0][1] = cd (0, sc); a[1][0] = cd (sc, 0); a[1][1] = cd (0, 0); Matrix<2,2,cd> ai = inv (a), p = ai * a; char what[160];
        snprintf (what, 160, "complex [[s+is, is],[s,0]] with s = %g: inv(A) A = 1", sc); for (unsigned i=0; i<2; i++) for (unsigned j=0; j<2; j++) expect_true (what, std::abs (p[i][j] - (i == j ? cd (1.0) : cd (0.0))) <= 1e-12); }
      Matrix<3,3,double> b; b[0][0] = 1; b[1][1] = std::ldexp (1.0, -560); b[1][2] = std::ldexp (1.0, -560); b[2][1] = std::ldexp (1.0, -560); b[2][2] = 0;   // diag (1, tiny block)
      Matrix<3,3,double> bi = inv (b), q = bi * b; for (unsigned i=0; i<3; i++) for (unsigned j=0; j<3; j++) expect ("diag (1, tiny 2x2 block): inv(A) A = 1", q[i][j], i == j ? 1.0 : 0.0, 1e-12); }
    Matrix<6,6,double> m = rmat<6,6> (); double tr = 0; for (unsigned i=0; i<6; i++) tr += m[i][i]; expect ("trace of a 6x6 matrix", trace (m), tr, 1e-12);
    Vector<6,double> a, b; for (unsigned i=0; i<6; i++) { a[i] = rnd13 (); b[i] = rnd13 (); } Matrix<6,6,double> o = outer (a, b); double dt = 0;
    for (unsigned i=0; i<6; i++) { dt += a[i] * b[i]; for (unsigned j=0; j<6; j++) expect ("outer product of 6-vectors", o[i][j], a[i] * b[j], 1e-12); }
    expect ("dot product of 6-vectors", a * b, dt, 1e-12); expect ("trace(outer) = dot", trace (o), dt, 1e-12); }, 1);
#endif
  symx::finish ();
  return 0;
}
