// Driver for C18 (part b): range contracts of the random_value / random_vector /
// random_matrix templates and of random Stokes vectors, with the uniform helper
// random_double() replaced by named variables r0, r1, ... in [0,1].
#include "random.h"
#include "Stokes.h"
#include "Matrix.h"
#include "drv_common.h"
using namespace symx;

static unsigned rcount = 0;
double random_double () { std::string n = "r" + std::to_string (rcount ++); return in (n.c_str(), 0.0, 1.0); }

int main (int argc, char** argv)
{
  symx::init ("C18b", argc > 1 ? argv[1] : ".");

  fn ("rv_scalar", [] { rcount = 0; double scale = in ("scale", 0.5, 3); double x; random_value (x, scale); out ("x", x);
    if (!symbolic) expect_true ("|random scalar| <= scale", std::fabs (x) <= std::fabs (scale)); });
  fn ("rv_complex", [] { rcount = 0; double scale = in ("scale", 0.5, 3); std::complex<double> z; random_value (z, scale); out ("z", z);
    if (!symbolic) expect_true ("|random complex parts| <= scale", std::fabs (z.real()) <= std::fabs (scale) && std::fabs (z.imag()) <= std::fabs (scale)); });
  fn ("rv_vector", [] { rcount = 0; double scale = in ("scale", 0.5, 3); Vector<3,double> v; random_vector (v, scale); out_vec ("v", v); });
  fn ("rv_matrix", [] { rcount = 0; double scale = in ("scale", 0.5, 3); Matrix<2,2,double> m; random_matrix (m, scale); out_mat ("m", m); });
  fn ("rv_jones", [] { rcount = 0; double scale = in ("scale", 0.5, 3); Jones<double> j; random_vector (j, scale); out_jones ("j", j); });
  fn ("rv_stokes", [] { rcount = 0; double scale = in ("scale", 0.5, 3); double maxp = in ("maxp", 0.1, 1.0);
    Stokes<double> s; random_value (s, scale, float (maxp));
    out_vec ("s", s); out ("inv", s.invariant ()); out ("p2", s.sqr_vect ());
    if (!symbolic) { expect ("random Stokes: total intensity = scale", s[0], scale);
      expect_true ("random Stokes: polarized intensity <= max fraction * scale", std::sqrt (s.sqr_vect ()) <= maxp * scale * (1 + 1e-6));
      expect_true ("random Stokes: invariant >= 0", s.invariant () >= -1e-9); } });
  symx::finish ();
  return 0;
}
