// Driver for C09: Hermitian square root and polar decomposition.
#include "Pauli.h"
#include "drv_common.h"
using namespace symx;
typedef std::complex<double> cd;

int main (int argc, char** argv)
{
  symx::init ("C09", argc > 1 ? argv[1] : ".");

  // square root of a Hermitian quaternion, every path
  fn_paths ("hsqrt", [] {
    Quaternion<double,Hermitian> h = quat_in<Hermitian> ("h");
    Quaternion<double,Hermitian> r = sqrt (h);
    out_quat ("r", r);
    out_jones ("rr", r * r);          // product of the matrix images
    out_jones ("hh", convert (h));
    out ("detr", det (r));
  });
  // concolic runs on positive definite inputs (translator validation + oracle)
  fn ("hsqrt_run", [] {
    double s0 = in ("h0", 2, 3), s1 = in ("h1", -1, 1), s2 = in ("h2", -1, 1), s3 = in ("h3", -1, 1);
    Quaternion<double,Hermitian> h (s0, s1, s2, s3);
    Quaternion<double,Hermitian> r = sqrt (h);
    out_quat ("r", r);
    if (!symbolic) { Jones<double> rr = r * r, hh = convert (h); for (unsigned i=0; i<4; i++) expect ("sqrt(h)^2 = h", rr[i], hh[i]);
      expect_true ("sqrt(h) has non-negative scalar and determinant", r.s0 >= 0 && det (r) >= -1e-12); }
  });
  // polar decomposition J = d h u
  fn ("polar", [] {
    Jones<double> j = jones_in ("j");
    cd d; Quaternion<double,Hermitian> h; Quaternion<double,Unitary> u;
    polar (d, h, u, j);
    out ("d", d); out_quat ("h", h); out_quat ("u", u);
    out ("dd", d * d); out ("detj", det (j));
    out ("deth", det (h)); out ("detu", det (u));
    Jones<double> rec = d * (convert (h) * convert (u));
    out_jones ("rec", rec); out_jones ("jj", j);
    bool nonsingular = true;      // the property speaks of non-singular matrices; the search mode also proposes singular ones
#ifndef SYMX_SYMBOLIC
    nonsingular = std::abs (det (j)) > 1e-9 * (1.0 + norm (j));
#endif
    if (!symbolic && nonsingular) {
      expect ("d^2 = det J", d * d, det (j)); expect ("det h = 1", det (h), 1.0, 1e-8); expect ("det u = 1", det (u), 1.0, 1e-8);
      expect_true ("h positive definite", h.s0 > 0);
      for (unsigned i=0; i<4; i++) expect ("d h u = J", rec[i], j[i], 1e-8);
    }
  });
  // the stages polar() is composed of, on fresh inputs
  // stage B: for a unimodular j, the Hermitian quaternion of j j^dagger: real part kept, imaginary part dropped
  fn ("polar_stageB", [] {
    Jones<double> j = jones_in ("p");
    Quaternion<cd,Hermitian> q = convert (j * herm (j));
    out_quat ("re", real (q)); out_quat ("im", imag (q));
    out ("detre", det (real (q))); out ("detj", det (j));
  });
  // stage D: given the Hermitian factor h and j, the unitary factor u = real(unitary(inv(h) j))
  fn ("polar_stageD", [] {
    Quaternion<double,Hermitian> h = quat_in<Hermitian> ("h", 0.5, 2); Jones<double> j = jones_in ("p");
    Jones<double> k = inv (convert (h)) * j;
    Quaternion<cd,Unitary> uq = unitary (k);
    Quaternion<double,Unitary> u = real (uq);
    out_quat ("u", u); out_quat ("uim", imag (uq)); out ("detu", det (u));
    out_jones ("hu", convert (h) * convert (u)); out_jones ("jj", j);
    out_jones ("hh", convert (h) * convert (h)); out_jones ("pp", j * herm (j));
    out ("deth", det (h));
  });
  // stage A: d = sqrt(det J) and the unimodular j = J / d
  fn ("polar_stageA", [] {
    Jones<double> j = jones_in ("j");
    cd d = sqrt (det (j)); Jones<double> k = j; k /= d;
    out ("d", d); out ("dd", d * d); out ("detj", det (j)); out_jones ("k", k); out ("detk", det (k));
    out_jones ("dk", d * k); out_jones ("jj", j);
  });

#ifndef SYMX_SYMBOLIC
  // the composition (the six lines of polar itself): checked numerically over structure classes
  fn ("polar_reconstruct_plain", [] {
    const double mats[][8] = {
      {1,0, 0,0, 0,0, 1,0}, {2,0, 0,0, 0,0, 0.5,0}, {1,0, 1,0, 0,0, 1,0}, {0,1, 0,0, 0,0, 0,1}, {0,0, 1,0, -1,0, 0,0},
      {1,2, 3,4, 5,6, 7,8}, {1,0, 2,0, 3,0, 4,0}, {0.6,0, -0.8,0, 0.8,0, 0.6,0}, {1,1, 1,-1, 1,-1, 1,1}, {3,0, 1,2, 1,-2, 2,0},
      {1e3,0, 1,0, 0,0, 1e-3,0}, {0,1, 2,0, 0,0, 0,-1}, {-1,0, 0,0, 0,0, 1,0},
      {1+1e-9,0, 0,0, 0,0, 1-1e-9,0}, {1,0, 2e-9,1e-9, 2e-9,-1e-9, 1,0}, {0.6,0.8, 1e-10,0, 1e-10,0, 0.6,-0.8} };   // a unitary times a weak boost
    for (auto& m : mats) for (double scale : { 1.0, 1e-8, 1e6, 1e-140, 1e-100, 1e-40, 1e40, 1e100, 1e140 }) {
      Jones<double> j (cd (m[0],m[1])*scale, cd (m[2],m[3])*scale, cd (m[4],m[5])*scale, cd (m[6],m[7])*scale);
      cd d; Quaternion<double,Hermitian> h; Quaternion<double,Unitary> u;
      polar (d, h, u, j);
      Jones<double> rec = d * (convert (h) * convert (u));
      double nj = std::sqrt (norm (j)); double kappa2 = norm (j) * norm (inv (j));   // squared condition number (Frobenius)
      char what[200]; snprintf (what, 200, "polar: d h u reproduces J = [%g%+gi %g%+gi; %g%+gi %g%+gi]*%g", m[0],m[1],m[2],m[3],m[4],m[5],m[6],m[7], scale);
      for (unsigned i=0; i<4; i++) expect (what, (rec[i] - j[i]) / (nj * kappa2 * 1e-13 + 1e-300) * 1e-13, cd (0.0), 1.0);
      expect (std::string (what) + ": det h = 1", det (h), 1.0, 1e-9 * kappa2);
      expect (std::string (what) + ": det u = 1", det (u), 1.0, 1e-9 * kappa2);
      expect (std::string (what) + ": d^2 = det J", (d*d - det (j)) / (std::abs (det (j)) + 1e-300), cd (0.0), 1e-12);
      expect_true (std::string (what) + ": h positive definite", h.s0 > 0 && det (h) > 0);
    } }, 1);
  // PSD quaternions whose determinant rounds slightly below zero (|p| = I): finite, PSD, squares back
  fn ("hsqrt_boundary_plain", [] {
    const double quads[][4] = { {1,0.6,0,0.8}, {1,0.8,0.6,0}, {3,1,2,2}, {7,2,3,6}, {9,1,4,8}, {1,1,0,0}, {1,0,1,0}, {1,0,0,1}, {0,0,0,0},
                                {11,2,6,9}, {13,3,4,12}, {15,2,10,11}, {1, 0.28, 0.96, 0}, {1, 0.36, 0.48, 0.8} };
    for (auto& q : quads) for (double scale : { 1.0, 1e-10, 3e7, 1.0/3, 0.1, 1e-140, 1e-60, 1e60, 1e140 }) {
      Quaternion<double,Hermitian> h (q[0]*scale, q[1]*scale, q[2]*scale, q[3]*scale);
      Quaternion<double,Hermitian> r = sqrt (h);
      char what[200]; snprintf (what, 200, "sqrt of the singular PSD quaternion (%g,%g,%g,%g)*%g is finite", q[0], q[1], q[2], q[3], scale);
      bool fin = std::isfinite (r.s0) && std::isfinite (r.s1) && std::isfinite (r.s2) && std::isfinite (r.s3);
      expect_true (what, fin);
      if (fin) { Jones<double> rr = r * r, hh = convert (h);
        for (unsigned i=0; i<4; i++) expect (std::string (what) + " and squares back", rr[i], hh[i], 1e-6 * scale + 1e-300); }
    } }, 1);
  // non-singular PSD quaternions over many scales, double and single precision: the root squares back (relative error)
  fn ("hsqrt_scales_plain", [] {
    const double quads[][4] = { {1,0,0,0}, {2,0.5,-0.25,1}, {1,0.3,0.2,-0.1}, {5,3,0,-3.5}, {1,0.6,0,0.79}, {3,-1,2,1.9}, {1,0,0,0.999},
                                {1,1e-6,0,0}, {1,1e-9,0,0}, {1,3e-10,-4e-10,1e-12}, {2,0,1e-12,0}, {1,1e-15,1e-15,-1e-15}, {7,0,0,1e-8} };   // nearly a multiple of the identity
    for (auto& q : quads) for (double scale : { 1.0, 1e-3, 1e-6, 1e-8, 1e-9, 1e-12, 1e-30, 1e-100, 1e-140, 1e3, 1e8, 1e30, 1e100, 1e140 }) {
      Quaternion<double,Hermitian> h (q[0]*scale, q[1]*scale, q[2]*scale, q[3]*scale); Quaternion<double,Hermitian> r = sqrt (h);
      Jones<double> rr = r * r, hh = convert (h); char what[200];
      snprintf (what, 200, "sqrt of the PSD quaternion (%g,%g,%g,%g)*%g squares back", q[0], q[1], q[2], q[3], scale);
      for (unsigned i=0; i<4; i++) expect_true (what, std::abs (rr[i] - hh[i]) <= 1e-12 * scale * q[0]);
      expect_true (std::string (what) + " (positive semi-definite root)", r.s0 >= 0 && det (r) >= -1e-12 * scale); }
    for (auto& q : quads) for (float scale : { 1.0f, 1e-2f, 1e-3f, 1e-4f, 1e-6f, 1e-12f, 1e3f, 1e6f, 1e12f }) {
      Quaternion<float,Hermitian> h (float (q[0])*scale, float (q[1])*scale, float (q[2])*scale, float (q[3])*scale); Quaternion<float,Hermitian> r = sqrt (h);
      Jones<float> rr = r * r, hh = convert (h); char what[200];
      snprintf (what, 200, "single precision: sqrt of the PSD quaternion (%g,%g,%g,%g)*%g squares back", q[0], q[1], q[2], q[3], double (scale));
      for (unsigned i=0; i<4; i++) expect_true (what, std::abs (rr[i] - hh[i]) <= 2e-5f * scale * float (q[0])); } }, 1);
#endif
  symx::finish ();
  return 0;
}
