// Driver for C08: covariant mode pairs -- pairing under every interleaving of the two
// consumers' requests, and the statistics of the bivariate log-normal factors.
#include "covariant.h"
#include "Pauli.h"
#include "drv_common.h"
#include "drv_gauss.h"
using namespace symx;
using namespace epsic;

Matrix<2,2,double> sqrt (const Matrix<2,2,double>& C);   // defined in covariant.cpp

struct stub_coordinator : public covariant_coordinator
{
  std::vector< std::pair<double,double> > draws; unsigned k;
  stub_coordinator () : covariant_coordinator (0.0), k (0) { }
  void get_modulation (double& A, double& B) { A = draws.at (k).first; B = draws.at (k).second; k ++; }
  double get_mod_mean (unsigned) const { return 1.0; }
  double get_mod_variance (unsigned) const { return 1.0; }
};

static void pairing_word (const std::string& word)
{
  fn ("pair_w" + word, [word] {
    stub_coordinator c;
    for (unsigned i=0; i<word.size(); i++) { double a = in (nm ("a", i).c_str()), b = in (nm ("b", i).c_str()); c.draws.push_back (std::make_pair (a, b)); }
    mode* mA = new mode; mode* mB = new mode;
    modulated_mode* A = c.get_modulated_mode (0, mA); modulated_mode* B = c.get_modulated_mode (1, mB);
    std::vector<double> da, db;
    for (unsigned i=0; i<word.size(); i++) {
      double v = (word[i] == 'A') ? A->modulation () : B->modulation ();
      out (nm ("d", i), v);
      if (word[i] == 'A') da.push_back (v); else db.push_back (v);
    }
    out_int ("ndraws", c.k);
    if (!symbolic) {
      for (unsigned i=0; i<da.size(); i++) expect ("i-th factor delivered to A is the first component of draw i", da[i], c.draws[i].first);
      for (unsigned i=0; i<db.size(); i++) expect ("i-th factor delivered to B is the second component of draw i", db[i], c.draws[i].second);
    }
  }, 1);
}

int main (int argc, char** argv)
{
  symx::init ("C08", argc > 1 ? argv[1] : ".");
  const char* tier = getenv ("VERIF_TIER");
  unsigned maxlen = (tier && std::string (tier) == "thorough") ? 8 : 6;
  for (unsigned len=1; len<=maxlen; len++)
    for (unsigned w=0; w < (1u << len); w++) {
      std::string word; for (unsigned i=0; i<len; i++) word += ((w >> i) & 1) ? 'B' : 'A';
      pairing_word (word);
    }

  // ---- statistics ------------------------------------------------------------
  // the 2x2 symmetric matrix square root used to correlate the deviates
  fn ("msqrt", [] { double c00 = in ("c00", 1, 2), c01 = in ("c01", -0.5, 0.5), c11 = in ("c11", 1, 2);
    Matrix<2,2,double> C; C[0][0] = c00; C[0][1] = c01; C[1][0] = c01; C[1][1] = c11;
    Matrix<2,2,double> R = sqrt (C);
    out_mat ("r", R); out_mat ("rr", R * R);
    if (!symbolic) for (unsigned i=0; i<2; i++) for (unsigned j=0; j<2; j++) expect ("sqrt(C)^2 = C", (R*R)[i][j], C[i][j]); });

  BoxMuller gasdev;
  // one joint draw of the bivariate log-normal pair; all three outcomes of the admissibility tests
  fn_paths ("lognormal_pair", [&] { gauss_reset ();
    double rho = in ("rho", -0.3, 0.3), b0 = in ("b0", 0.5, 1.5), b1 = in ("b1", 0.5, 1.5);
    gauss_preload (2);
    bivariate_lognormal_modes* c = new bivariate_lognormal_modes (rho);
    c->set_beta (0, b0); c->set_beta (1, b1); c->set_normal (&gasdev);
    mode* mA = new mode; mode* mB = new mode;
    modulated_mode* A = c->get_modulated_mode (0, mA); modulated_mode* B = c->get_modulated_mode (1, mB);
    double fA = A->modulation (); double fB = B->modulation ();
    out ("fA", fA); out ("fB", fB);
    out ("meanA", c->get_mod_mean (0)); out ("meanB", c->get_mod_mean (1));
    out ("varA", c->get_mod_variance (0)); out ("varB", c->get_mod_variance (1));
    out ("icov", c->get_intensity_covariance ());
    out ("A_varA", A->get_mod_variance ()); out ("B_varB", B->get_mod_variance ());
    out_int ("deviates", gauss_count);
  });
  // concolic run for translator validation (accepted path)
  fn ("lognormal_pair_run", [&] { gauss_reset ();
    double rho = in ("rho", -0.3, 0.3), b0 = in ("b0", 0.5, 1.5), b1 = in ("b1", 0.5, 1.5);
    bivariate_lognormal_modes* c = new bivariate_lognormal_modes (rho);
    c->set_beta (0, b0); c->set_beta (1, b1); c->set_normal (&gasdev);
    mode* mA = new mode; mode* mB = new mode;
    modulated_mode* A = c->get_modulated_mode (0, mA); modulated_mode* B = c->get_modulated_mode (1, mB);
    double fA = A->modulation (); double fB = B->modulation ();
    out ("fA", fA); out ("fB", fB); out ("icov", c->get_intensity_covariance ());
    if (!symbolic) { expect_true ("factors finite", std::isfinite (fA) && std::isfinite (fB)); } });
  // changing a modulation index after the first draw: the next draw uses the new parameters
  fn ("lognormal_pair_rebuild", [&] { gauss_reset ();
    double rho = in ("rho", -0.3, 0.3), b0 = in ("b0", 0.5, 1.5), b1 = in ("b1", 0.5, 1.5), b0old = in ("b0old", 0.5, 1.5);
    gauss_preload (4);
    bivariate_lognormal_modes* c = new bivariate_lognormal_modes (rho);
    c->set_beta (0, b0old); c->set_beta (1, b1); c->set_normal (&gasdev);
    mode* mA = new mode; mode* mB = new mode;
    modulated_mode* A = c->get_modulated_mode (0, mA); modulated_mode* B = c->get_modulated_mode (1, mB);
    A->modulation (); B->modulation ();           // first joint draw with the old index (consumes g0, g1)
    c->set_beta (0, b0);
    double fA = A->modulation (); double fB = B->modulation ();
    out ("fA", fA); out ("fB", fB); out ("varA", c->get_mod_variance (0)); out ("icov", c->get_intensity_covariance ());
    // a fresh coordinator with the new index, fed the same two deviates
    bivariate_lognormal_modes* d = new bivariate_lognormal_modes (rho);
    d->set_beta (0, b0); d->set_beta (1, b1); d->set_normal (&gasdev);
    symx::gauss_qpos = 2;
    modulated_mode* A2 = d->get_modulated_mode (0, new mode); modulated_mode* B2 = d->get_modulated_mode (1, new mode);
    double gA = A2->modulation (); double gB = B2->modulation ();
    out ("wA", gA); out ("wB", gB); out ("wvarA", d->get_mod_variance (0)); out ("wicov", d->get_intensity_covariance ());
    if (!symbolic) { expect ("after set_beta the next pair uses the new index (A)", fA, gA); expect ("after set_beta the next pair uses the new index (B)", fB, gB); }
  });
#ifndef SYMX_SYMBOLIC
  // finiteness at the very edge of the admissible range (plain build oracle)
  fn ("lognormal_edge_plain", [&] {
    for (double b0 : { 0.5, 1.0, 2.0 }) for (double b1 : { 0.5, 1.0, 2.0 }) for (int edge = 0; edge < 2; edge ++) {
      double s0 = std::sqrt (std::log (b0*b0 + 1)), s1 = std::sqrt (std::log (b1*b1 + 1));
      double be0 = std::sqrt (std::exp (s0*s0) - 1.0), be1 = std::sqrt (std::exp (s1*s1) - 1.0);
      double rho = edge ? (std::exp (s0*s1) - 1.0) / (be0*be1) : (std::exp (-s0*s1) - 1.0) / (be0*be1);
      gauss_reset ();
      bivariate_lognormal_modes* c = new bivariate_lognormal_modes (rho);
      c->set_beta (0, b0); c->set_beta (1, b1); c->set_normal (&gasdev);
      mode* mA = new mode; mode* mB = new mode;
      modulated_mode* A = c->get_modulated_mode (0, mA); modulated_mode* B = c->get_modulated_mode (1, mB);
      double fA = 0, fB = 0; bool thrown = false;
      try { fA = A->modulation (); fB = B->modulation (); } catch (std::exception&) { thrown = true; }
      char what[200]; snprintf (what, 200, "accepted request at the edge of the range (b0=%g b1=%g %s) yields finite factors", b0, b1, edge ? "max" : "min");
      if (!thrown) expect_true (what, std::isfinite (fA) && std::isfinite (fB));
    } }, 1);
  // the admissible range itself, for equal and unequal modulation indices: requests just inside
  // [ (exp(-s0 s1) - 1)/(b0 b1), (exp(s0 s1) - 1)/(b0 b1) ] are accepted, requests just outside are rejected
  fn ("lognormal_range_plain", [&] {
    for (double b0 : { 0.5, 1.0, 1.5, 2.0 }) for (double b1 : { 0.5, 1.0, 1.5, 2.0 }) {
      double s0 = std::sqrt (std::log (b0*b0 + 1)), s1 = std::sqrt (std::log (b1*b1 + 1));
      double lo = (std::exp (-s0*s1) - 1.0) / (b0*b1), hi = (std::exp (s0*s1) - 1.0) / (b0*b1);
      const double fr[] = { 0.0, 0.5, 0.9, 0.999 };
      for (int side=0; side<2; side++) for (int out=0; out<2; out++) for (double fq : fr) {
        double edge = side ? hi : lo; double rho = out ? edge * (1.0 + 0.001 + 0.3 * fq) : edge * fq;
        gauss_reset ();
        bivariate_lognormal_modes* c = new bivariate_lognormal_modes (rho);
        c->set_beta (0, b0); c->set_beta (1, b1); c->set_normal (&gasdev);
        modulated_mode* A = c->get_modulated_mode (0, new mode); modulated_mode* B = c->get_modulated_mode (1, new mode);
        double fA = 0, fB = 0; bool thrown = false;
        std::streambuf* old = std::cerr.rdbuf (0);      // the library reports rejections on std::cerr
        try { fA = A->modulation (); fB = B->modulation (); } catch (std::exception&) { thrown = true; }
        std::cerr.rdbuf (old);
        char what[240];
        if (out) { snprintf (what, 240, "correlation %.6g outside the admissible range [%.6g, %.6g] of indices (%g, %g) is rejected", rho, lo, hi, b0, b1); expect_true (what, thrown); }
        else { snprintf (what, 240, "correlation %.6g inside the admissible range [%.6g, %.6g] of indices (%g, %g) is accepted with finite factors", rho, lo, hi, b0, b1); expect_true (what, !thrown && std::isfinite (fA) && std::isfinite (fB)); }
      } } }, 1);
  // weak and strong modulation alike: the pair delivered for the scripted deviates (1,0) and (0,1) exposes the mixing matrix R
  // (log factor + sigma^2/2 = R z); R R^T must be the log-space covariance [[s0^2, log(rho b0 b1 + 1)], [., s1^2]] that yields the
  // requested indices and correlation, at a relative accuracy of 1e-7 (the factors pass through exp and log in binary64)
  fn ("lognormal_mixing_plain", [&] {
    const double idx[][2] = { {1,1}, {0.3,2}, {0.01,0.01}, {1e-3,1e-3}, {1e-4,1e-2}, {1e-5,1e-5}, {1e-4,1.0}, {3,0.5} };
    for (auto& b : idx) for (double fq : { 0.0, 0.5, -0.3, 0.9, -0.9 }) {
      double b0 = b[0], b1 = b[1]; double s0 = std::sqrt (std::log (b0*b0 + 1)), s1 = std::sqrt (std::log (b1*b1 + 1));
      double lo = (std::exp (-s0*s1) - 1.0) / (b0*b1), hi = (std::exp (s0*s1) - 1.0) / (b0*b1); double rho = fq >= 0 ? fq * hi : - fq * lo;
      double R[2][2];
      for (int col=0; col<2; col++) { gauss_reset (); gauss_queue.push_back (col == 0 ? 1.0 : 0.0); gauss_queue.push_back (col == 0 ? 0.0 : 1.0);
        bivariate_lognormal_modes* c = new bivariate_lognormal_modes (rho); c->set_beta (0, b0); c->set_beta (1, b1); c->set_normal (&gasdev);
        modulated_mode* A = c->get_modulated_mode (0, new mode); modulated_mode* B = c->get_modulated_mode (1, new mode);
        double fA = A->modulation (), fB = B->modulation (); R[0][col] = std::log (fA) + 0.5*s0*s0; R[1][col] = std::log (fB) + 0.5*s1*s1; }
      double c00 = R[0][0]*R[0][0] + R[0][1]*R[0][1], c11 = R[1][0]*R[1][0] + R[1][1]*R[1][1], c01 = R[0][0]*R[1][0] + R[0][1]*R[1][1];
      double w01 = std::log (rho * b0 * b1 + 1.0); char what[240];
      snprintf (what, 240, "indices (%g, %g), correlation %g: the mixing matrix reproduces the log-space variance of mode A", b0, b1, rho); expect_true (what, std::fabs (c00 - s0*s0) <= 1e-7 * s0*s0);
      snprintf (what, 240, "indices (%g, %g), correlation %g: the mixing matrix reproduces the log-space variance of mode B", b0, b1, rho); expect_true (what, std::fabs (c11 - s1*s1) <= 1e-7 * s1*s1);
      snprintf (what, 240, "indices (%g, %g), correlation %g: the mixing matrix reproduces the log-space covariance", b0, b1, rho); expect_true (what, std::fabs (c01 - w01) <= 1e-7 * s0*s1 + 1e-300);
    } }, 1);
#endif

  symx::finish ();
  return 0;
}
