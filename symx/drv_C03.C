// Driver for C03: quaternion / biquaternion types are isomorphic to Jones matrices.
// LAW functions emit the image of the quaternion-side result ("g") followed by
// the Jones-side result ("w"); TIE functions emit convert(q) for the spec maps.
#include "Pauli.h"
#include "drv_common.h"

using namespace symx;
typedef std::complex<double> cd;
typedef Quaternion<cd,Hermitian> BH;
typedef Quaternion<cd,Unitary> BU;
typedef Quaternion<double,Hermitian> QH;
typedef Quaternion<double,Unitary> QU;

static void law (const std::string& what, const Jones<double>& g, const Jones<double>& w, bool applies = true)
{
  out_jones ("g", g); out_jones ("w", w);
  if (!symbolic && applies) for (unsigned i=0; i<4; i++) expect (what + " element " + std::to_string (i), g[i], w[i]);
}
static void lawc (const std::string& what, const cd& g, const cd& w)
{ out ("g", g); out ("w", w); if (!symbolic) expect (what, g, w); }
static void lawr (const std::string& what, const double& g, const double& w)
{ out ("g", g); out ("w", w); if (!symbolic) expect (what, g, w); }

template<class Q> struct qmk;
template<> struct qmk<BH> { static BH in (const std::string& p) { return biquat_in<Hermitian> (p); } };
template<> struct qmk<BU> { static BU in (const std::string& p) { return biquat_in<Unitary> (p); } };
template<> struct qmk<QH> { static QH in (const std::string& p) { return quat_in<Hermitian> (p); } };
template<> struct qmk<QU> { static QU in (const std::string& p) { return quat_in<Unitary> (p); } };

// laws shared by all four quaternion types
template<class Q> static void common_laws (const std::string& t)
{
  fn ("conv_" + t, [] { Q a = qmk<Q>::in ("a"); out_jones ("r", convert (a)); });
  fn ("add_" + t, [] { Q a = qmk<Q>::in ("a"), b = qmk<Q>::in ("b"); law ("convert(a+b) = convert(a)+convert(b)", convert (a + b), convert (a) + convert (b)); });
  fn ("sub_" + t, [] { Q a = qmk<Q>::in ("a"), b = qmk<Q>::in ("b"); law ("convert(a-b) = convert(a)-convert(b)", convert (a - b), convert (a) - convert (b)); });
  fn ("neg_" + t, [] { Q a = qmk<Q>::in ("a"); law ("convert(-a) = -convert(a)", convert (-a), -convert (a)); });
  fn ("det_" + t, [] { Q a = qmk<Q>::in ("a"); lawc ("det(a) = det(convert(a))", cd (det (a)), det (convert (a))); });
  fn ("trace_" + t, [] { Q a = qmk<Q>::in ("a"); lawc ("trace(a) = trace(convert(a))", cd (trace (a)), trace (convert (a))); });
  fn ("norm_" + t, [] { Q a = qmk<Q>::in ("a"); lawr ("norm(a) = norm(convert(a))", norm (a), norm (convert (a))); });
  fn ("conj_" + t, [] { Q a = qmk<Q>::in ("a"); law ("convert(conj a) = conj(convert a)", convert (conj (a)), conj (convert (a))); });
  fn ("herm_" + t, [] { Q a = qmk<Q>::in ("a"); law ("convert(herm a) = herm(convert a)", convert (herm (a)), herm (convert (a))); });
  fn ("inv_" + t, [] { Q a = qmk<Q>::in ("a"); 
    // the inverse exists for non-singular arguments only (the property's clause); the search mode also proposes singular ones
    bool nonsingular = true;
#ifndef SYMX_SYMBOLIC
    nonsingular = std::abs (det (convert (a))) > 1e-9 * (1.0 + norm (convert (a)));
#endif
    law ("convert(inv a) = inv(convert a)", convert (inv (a)), inv (convert (a)), nonsingular); });
  // products with Jones matrices equal the products of the matrix images
  fn ("jones_times_" + t, [] { Jones<double> j = jones_in ("j"); Q a = qmk<Q>::in ("a"); law ("J*q = J*convert(q)", j * a, j * convert (a)); });
}

int main (int argc, char** argv)
{
  symx::init ("C03", argc > 1 ? argv[1] : ".");

  common_laws<BH> ("BH"); common_laws<BU> ("BU"); common_laws<QH> ("QH"); common_laws<QU> ("QU");

  // identity (the biquaternion identity() is initialised from int literals, which
  // needs two user conversions at complex<Sym>: real quaternions only)
  fn ("identity_QH", [] { out_jones ("g", convert (QH::identity())); out_jones ("w", Jones<double> (1.0)); }, 1);
  fn ("identity_QU", [] { out_jones ("g", convert (QU::identity())); out_jones ("w", Jones<double> (1.0)); }, 1);
#ifndef SYMX_SYMBOLIC
  fn ("identity_biquat_plain", [] { Jones<double> a = convert (BH::identity()), b = convert (BU::identity());
    for (unsigned i=0; i<4; i++) { expect ("identity BH", a[i], cd (i==0||i==3 ? 1.0 : 0.0)); expect ("identity BU", b[i], cd (i==0||i==3 ? 1.0 : 0.0)); } }, 1);
#endif

  // products: Hermitian biquaternions, unitary (bi)quaternions
  fn ("mul_BH", [] { BH a = qmk<BH>::in ("a"), b = qmk<BH>::in ("b"); law ("convert(a*b) = convert(a)*convert(b)", convert (a * b), convert (a) * convert (b)); });
  fn ("mul_BU", [] { BU a = qmk<BU>::in ("a"), b = qmk<BU>::in ("b"); law ("convert(a*b) = convert(a)*convert(b)", convert (a * b), convert (a) * convert (b)); });
  fn ("mul_QU", [] { QU a = qmk<QU>::in ("a"), b = qmk<QU>::in ("b"); law ("convert(a*b) = convert(a)*convert(b)", convert (a * b), convert (a) * convert (b)); });
  // scalar multiples
  fn ("scale_BH", [] { BH a = qmk<BH>::in ("a"); cd z = complex_in ("z"); law ("convert(z*a) = z*convert(a)", convert (z * a), z * convert (a)); });
  fn ("scale_BU", [] { BU a = qmk<BU>::in ("a"); cd z = complex_in ("z"); law ("convert(a*z) = convert(a)*z", convert (a * z), convert (a) * z); });
  fn ("scale_QH", [] { QH a = qmk<QH>::in ("a"); double r = in ("r"); law ("convert(r*a) = r*convert(a)", convert (r * a), r * convert (a)); });
  fn ("scale_QU", [] { QU a = qmk<QU>::in ("a"); double r = in ("r"); law ("convert(a*r) = convert(a)*r", convert (a * r), convert (a) * r); });
  fn ("div_QU", [] { QU a = qmk<QU>::in ("a"); double r = in ("r", 0.5, 2); law ("convert(a/r) = convert(a)/r", convert (a / r), convert (a) / r); });
  fn ("div_BH", [] { BH a = qmk<BH>::in ("a"); cd z = complex_in ("z", 0.5, 2); law ("convert(a/z) = convert(a)/z", convert (a / z), convert (a) / z); });

  // mixed products
  fn ("QH_times_jones", [] { QH a = qmk<QH>::in ("a"); Jones<double> j = jones_in ("j"); law ("q*J = convert(q)*J", a * j, convert (a) * j); });
  fn ("QU_times_jones", [] { QU a = qmk<QU>::in ("a"); Jones<double> j = jones_in ("j"); law ("q*J = convert(q)*J", a * j, convert (a) * j); });
  fn ("QH_times_QU", [] { QH a = qmk<QH>::in ("a"); QU b = qmk<QU>::in ("b"); law ("h*u = convert(h)*convert(u)", a * b, convert (a) * convert (b)); });
  fn ("QU_times_QH", [] { QU a = qmk<QU>::in ("a"); QH b = qmk<QH>::in ("b"); law ("u*h = convert(u)*convert(h)", a * b, convert (a) * convert (b)); });
  fn ("QH_times_QH", [] { QH a = qmk<QH>::in ("a"), b = qmk<QH>::in ("b"); law ("h*h' = convert(h)*convert(h')", a * b, convert (a) * convert (b)); });
  fn ("QH_times_BU", [] { QH a = qmk<QH>::in ("a"); BU b = qmk<BU>::in ("b"); law ("h*U = convert(h)*convert(U)", a * b, convert (a) * convert (b)); });

  // the maps are mutually inverse
  fn ("roundtrip_jones_H", [] { Jones<double> j = jones_in ("j"); law ("convert(convert(J)) = J", convert (convert (j)), j); });
  fn ("roundtrip_jones_U", [] { Jones<double> j = jones_in ("j"); law ("convert(unitary(J)) = J", convert (unitary (j)), j); });
  fn ("roundtrip_BH", [] { BH a = qmk<BH>::in ("a"); BH b = convert (convert (a));
    out_biquat ("g", b); out_biquat ("w", a); if (!symbolic) for (int i=0; i<4; i++) expect ("convert(convert(q)) = q", b[i], a[i]); });
  fn ("roundtrip_BU", [] { BU a = qmk<BU>::in ("a"); BU b = unitary (convert (a));
    out_biquat ("g", b); out_biquat ("w", a); if (!symbolic) for (int i=0; i<4; i++) expect ("unitary(convert(q)) = q", b[i], a[i]); });

  // the four unit quaternions
  for (int k=0; k<4; k++) {
    fn (nm ("unit_H", k), [k] { QH q; q[k] = 1.0; out_jones ("r", convert (q)); }, 1);
    fn (nm ("unit_U", k), [k] { QU q; q[k] = 1.0; out_jones ("r", convert (q)); }, 1);
    fn (nm ("pauli_matrix", k), [k] { out_jones ("r", Pauli::matrix (k)); }, 1);
  }
  fn ("ci_complex", [] { cd z = complex_in ("z"); out ("r", ci (z)); });
  fn ("ci_real", [] { double r = in ("r"); out ("r", ci (r)); });

  // scalar multiples through the compound operators, the scalar being one of the quaternion's own components
  fn ("div_alias_QH", [] { QH a = qmk<QH>::in ("a"), b = a, c = a, d = a; Jones<double> w0 = convert (a) / cd (a.s0), w1 = convert (a) / cd (a.s1), w2 = convert (a) / cd (a.s2);
    b /= b.s0; c /= c.s1; d /= d.s2; out_jones ("g0", convert (b)); out_jones ("g1", convert (c)); out_jones ("g2", convert (d)); out_jones ("w0", w0); out_jones ("w1", w1); out_jones ("w2", w2);
    if (!symbolic) for (unsigned i=0; i<4; i++) { expect ("convert (q /= q.s0) = convert (q) / s0", convert (b)[i], w0[i]); expect ("convert (q /= q.s1) = convert (q) / s1", convert (c)[i], w1[i]); expect ("convert (q /= q.s2) = convert (q) / s2", convert (d)[i], w2[i]); } });
  fn ("mul_alias_BU", [] { BU a = qmk<BU>::in ("a"), b = a, c = a; Jones<double> w0 = convert (a) * a.s0, w1 = convert (a) * a.s2;
    b *= b.s0; c *= c.s2; out_jones ("g0", convert (b)); out_jones ("g1", convert (c)); out_jones ("w0", w0); out_jones ("w1", w1);
    if (!symbolic) for (unsigned i=0; i<4; i++) { expect ("convert (b *= b.s0) = convert (b) s0", convert (b)[i], w0[i]); expect ("convert (b *= b.s2) = convert (b) s2", convert (c)[i], w1[i]); } });
  // mixed element types: conversion between element types (real -> complex, single -> double) and the mixed sums,
  // differences and scalar multiples that go through it
  typedef Quaternion<float,Hermitian> FH; typedef Quaternion<float,Unitary> FU;
  fn ("promote_QH_BH", [] { QH a = qmk<QH>::in ("a"); BH b (a); law ("convert(biquaternion(q)) = convert(q)", convert (b), convert (a)); });
  fn ("promote_QU_BU", [] { QU a = qmk<QU>::in ("a"); BU b (a); law ("convert(biquaternion(q)) = convert(q)", convert (b), convert (a)); });
  fn ("mixed_add_QH_BH", [] { QH a = qmk<QH>::in ("a"); BH b = qmk<BH>::in ("b"); law ("convert(q+b) = convert(q)+convert(b)", convert (a + b), convert (a) + convert (b)); });
  fn ("mixed_add_BH_QH", [] { QH a = qmk<QH>::in ("a"); BH b = qmk<BH>::in ("b"); law ("convert(b+q) = convert(b)+convert(q)", convert (b + a), convert (b) + convert (a)); });
  fn ("mixed_sub_QU_BU", [] { QU a = qmk<QU>::in ("a"); BU b = qmk<BU>::in ("b"); law ("convert(q-b) = convert(q)-convert(b)", convert (a - b), convert (a) - convert (b)); });
  fn ("mixed_sub_BU_QU", [] { QU a = qmk<QU>::in ("a"); BU b = qmk<BU>::in ("b"); law ("convert(b-q) = convert(b)-convert(q)", convert (b - a), convert (b) - convert (a)); });
  fn ("mixed_add_FH_QH", [] { QH a = qmk<QH>::in ("a"), b = qmk<QH>::in ("b"); FH af (float (a.s0), float (a.s1), float (a.s2), float (a.s3));
    QH g = af + b; QH h = b + af; out_quat ("g", g); out_quat ("h", h);
    QH w (double (af.s0) + b.s0, double (af.s1) + b.s1, double (af.s2) + b.s2, double (af.s3) + b.s3); out_quat ("w", w); out_quat ("w2", w);
    if (!symbolic) { expect ("single + double quaternion, component 0", g.s0, w.s0, 1e-6); expect ("component 1", g.s1, w.s1, 1e-6); expect ("component 2", g.s2, w.s2, 1e-6); expect ("component 3", g.s3, w.s3, 1e-6);
                     expect ("double + single quaternion, component 2", h.s2, w.s2, 1e-6); expect ("double + single quaternion, component 3", h.s3, w.s3, 1e-6); } });
  fn ("mixed_scale_FU_double", [] { QU a = qmk<QU>::in ("a"); double r = in ("r", 0.5, 2); FU af (float (a.s0), float (a.s1), float (a.s2), float (a.s3));
    QU g = r * af; QU h = af * r; QU k = af / r; out_quat ("g", g); out_quat ("h", h); out_quat ("k", k);
    QU w (r * double (af.s0), r * double (af.s1), r * double (af.s2), r * double (af.s3)); QU wk (double (af.s0) / r, double (af.s1) / r, double (af.s2) / r, double (af.s3) / r);
    out_quat ("w", w); out_quat ("w2", w); out_quat ("wk", wk);
    // (the library evaluates these in single precision: the comparison allows for it)
    if (!symbolic) { expect ("double * single quaternion, component 2", g.s2, w.s2, 1e-6); expect ("component 3", g.s3, w.s3, 1e-6); expect ("single quaternion * double, component 3", h.s3, w.s3, 1e-6); expect ("single quaternion / double, component 3", k.s3, wk.s3, 1e-6); } });
#ifndef SYMX_SYMBOLIC
  // all magnitudes: scaling the operands by a power of two (exact in binary floating point) must scale every
  // result by the corresponding power, bit for bit, as long as nothing over- or underflows: conversion (degree 1),
  // product, determinant, norm (degree 2), inverse (degree -1), mixed products (degree 2)
  fn ("homogeneity_plain", [] {
    auto same = [] (const std::string& what, const Jones<double>& got, const Jones<double>& base, double factor) {
      for (unsigned i=0; i<4; i++) { expect_true (what + " (re)", got[i].real () == base[i].real () * factor); expect_true (what + " (im)", got[i].imag () == base[i].imag () * factor); } };
    BH a (cd (0.75, -1.25), cd (1.5, 0.5), cd (-0.375, 2), cd (1, 1)), b (cd (-1, 0.5), cd (0.25, 0.75), cd (2, -1.5), cd (0.5, 0.125));
    BU ua (cd (0.75, -1.25), cd (1.5, 0.5), cd (-0.375, 2), cd (1, 1)), ub (cd (-1, 0.5), cd (0.25, 0.75), cd (2, -1.5), cd (0.5, 0.125));
    QH qa (1.75, 0.5, -0.25, 1.125), qb (0.875, -1.5, 0.75, 0.0625); QU va (1.75, 0.5, -0.25, 1.125), vb (0.875, -1.5, 0.75, 0.0625);
    Jones<double> J (cd (1, 2), cd (-3, 0.5), cd (0.25, -1), cd (2, 2));
    for (int e : { -400, -300, -160, -80, 80, 160, 300, 400 }) { double s = std::ldexp (1.0, e), s2 = std::ldexp (1.0, 2*e), si = std::ldexp (1.0, -e); char t[80]; snprintf (t, 80, " at scale 2^%d", e);
      same (std::string ("convert(s a) = s convert(a), Hermitian biquaternion") + t, convert (s * a), convert (a), s);
      same (std::string ("convert(a s) = s convert(a), unitary biquaternion") + t, convert (ua * s), convert (ua), s);
      same (std::string ("convert(s q) = s convert(q), Hermitian quaternion") + t, convert (s * qa), convert (qa), s);
      same (std::string ("inverse of a scaled Hermitian quaternion") + t, convert (inv (s * qa)), convert (inv (qa)), si);
      same (std::string ("inverse of a scaled Hermitian biquaternion") + t, convert (inv (s * a)), convert (inv (a)), si);
      same (std::string ("inverse of a scaled unitary biquaternion") + t, convert (inv (ua * s)), convert (inv (ua)), si);
      same (std::string ("J * (s q) = s (J * q)") + t, J * (s * qa), J * qa, s);
      same (std::string ("(s q) * J = s (q * J)") + t, (s * qa) * J, qa * J, s);
      if (e >= -300 && e <= 300) {
        same (std::string ("product of scaled Hermitian biquaternions") + t, convert ((s * a) * (s * b)), convert (a * b), s2);
        same (std::string ("product of scaled unitary biquaternions") + t, convert ((ua * s) * (ub * s)), convert (ua * ub), s2);
        same (std::string ("product of scaled unitary quaternions") + t, convert ((va * s) * (vb * s)), convert (va * vb), s2);
        expect_true (std::string ("det of a scaled Hermitian quaternion") + t, det (s * qa) == det (qa) * s2);
        expect_true (std::string ("det of a scaled unitary quaternion") + t, det (va * s) == det (va) * s2);
        expect_true (std::string ("norm of a scaled Hermitian quaternion") + t, norm (s * qa) == norm (qa) * s2);
        cd d1 = det (s * a), d0 = det (a); expect_true (std::string ("det of a scaled Hermitian biquaternion") + t, d1.real () == d0.real () * s2 && d1.imag () == d0.imag () * s2); } } }, 1);
#endif
  symx::finish ();
  return 0;
}
