// Driver for C01: a mode's generated fields reproduce its Stokes mean and predicted covariance.
#include "mode.h"
#include "sample.h"
#include "Pauli.h"
#include "drv_common.h"
#include "drv_gauss.h"
using namespace symx;
using namespace epsic;

int main (int argc, char** argv)
{
  symx::init ("C01", argc > 1 ? argv[1] : ".");
  BoxMuller gasdev;

  // the polarizer built by set_Stokes, every path of the quaternion square root
  fn_paths ("polarizer", [&] {
    mode m; Stokes<double> S = stokes_in ("s");
    m.set_Stokes (S);
    Jones<double> P = m.get_polarizer ();
    out_jones ("p", P);
    out_jones ("pp", P * P);                                   // P^2 ...
    out_jones ("two_rho", convert (natural (S)));              // ... = S0 + S.sigma = 2 rho
    out_jones ("pherm", herm (P));                             // P is Hermitian
  });
  // one field instance and its instantaneous Stokes parameters, as functions of the
  // mean Stokes vector and the four deviates the instance consumes
  fn ("instance", [&] { gauss_reset ();
    mode m; m.set_normal (&gasdev);
    Stokes<double> S = stokes_valid_in ("s");
    m.set_Stokes (S);
    Spinor<double> e = m.get_field ();
    out ("ex", e.x); out ("ey", e.y);
    Vector<4,double> s; compute_stokes (s, e);
    out_vec ("st", s);
    out_int ("deviates", gauss_count);
  });
  // two successive instances use disjoint deviate sets (g0..g3, g4..g7)
  fn ("two_instances", [&] { gauss_reset ();
    mode m; m.set_normal (&gasdev);
    Stokes<double> S = stokes_valid_in ("s");
    m.set_Stokes (S);
    Spinor<double> e1 = m.get_field (); unsigned c1 = gauss_count;
    Spinor<double> e2 = m.get_field (); unsigned c2 = gauss_count;
    out ("e1x", e1.x); out ("e1y", e1.y); out ("e2x", e2.x); out ("e2y", e2.y);
    out_int ("after1", c1); out_int ("after2", c2);
  });
  // what the mode reports, on every path of set_Stokes (zero intensity and |p| = I included), also
  // after the object carried another mean before
  fn_paths ("reported_paths", [&] {
    mode m; m.set_Stokes (Stokes<double> (3.0, -2.0, 1.0, 2.0));
    Stokes<double> S = stokes_in ("s"); m.set_Stokes (S);
    out_vec ("mean", m.get_mean ()); out_mat ("cov", m.get_covariance ());
    out_mat ("x0", m.get_crosscovariance (0)); out_mat ("x1", m.get_crosscovariance (1));
  });
  fn ("reported", [&] {
    mode m; Stokes<double> S = stokes_valid_in ("s"); m.set_Stokes (S);
    out_vec ("mean", m.get_mean ()); out_mat ("cov", m.get_covariance ());
    out_mat ("x0", m.get_crosscovariance (0)); out_mat ("x1", m.get_crosscovariance (1));
    out_mat ("x2", m.get_crosscovariance (2)); out_mat ("x3", m.get_crosscovariance (3));
    if (!symbolic) { Matrix<4,4,double> C = m.get_covariance ();
      for (unsigned i=0; i<4; i++) for (unsigned j=0; j<4; j++) { double dot = S[0]*S[0] - S[1]*S[1] - S[2]*S[2] - S[3]*S[3]; double eta = i == j ? (i == 0 ? 1 : -1) : 0;
        expect ("reported covariance = S_i S_j - 1/2 eta_ij (S.S)", C[i][j], S[i]*S[j] - 0.5*eta*dot); } }
  });
#ifndef SYMX_SYMBOLIC
  fn ("reported_zero_plain", [&] { mode m; m.set_Stokes (Stokes<double> (3.0, -2.0, 1.0, 2.0)); m.set_Stokes (Stokes<double> (0.0, 0.0, 0.0, 0.0));
    Matrix<4,4,double> C = m.get_covariance (), X = m.get_crosscovariance (0);
    for (unsigned i=0; i<4; i++) for (unsigned j=0; j<4; j++) { expect ("zero-intensity mode reports zero covariance", C[i][j], 0.0); expect ("zero-intensity mode: lag-0 cross-covariance = covariance", X[i][j], 0.0); } }, 1);
#endif
  // the instantaneous Stokes parameters for a polarizer given directly by a Hermitian root
  // quaternion r (the code's own convert, Jones*Spinor product and detection), used for the
  // exact ensemble moments: S = coherency of r*r
  fn ("instance_from_root", [&] {
    Quaternion<double,Hermitian> r = quat_in<Hermitian> ("r");
    double g0 = in ("g0"), g1 = in ("g1"), g2 = in ("g2"), g3 = in ("g3");
    Jones<double> P = convert (r);
    std::complex<double> x (0.5 * g0, 0.5 * g1), y (0.5 * g2, 0.5 * g3);
    Spinor<double> e = P * Spinor<double> (x, y);
    Vector<4,double> s; compute_stokes (s, e);
    out_vec ("st", s);
  });
#ifndef SYMX_SYMBOLIC
  // finiteness of the generated fields on the boundary |p| = I (binary64)
  fn ("boundary_finite_plain", [&] {
    const double quads[][4] = { {1,0.6,0,0.8}, {1,0.8,0.6,0}, {3,1,2,2}, {7,2,3,6}, {9,1,4,8}, {1,1,0,0}, {1,0,-1,0}, {1,0,0,1}, {0,0,0,0},
                                {11,2,6,9}, {13,3,4,12}, {15,2,10,11}, {1,0.28,0.96,0}, {1,0.36,0.48,0.8}, {1,-0.6,0,-0.8} };
    for (auto& q : quads) for (double scale : { 1.0, 1e-12, 3e9, 1.0/3, 0.1, 7.0 }) {
      gauss_reset (); mode m; m.set_normal (&gasdev);
      m.set_Stokes (Stokes<double> (q[0]*scale, q[1]*scale, q[2]*scale, q[3]*scale));
      Spinor<double> e = m.get_field ();
      char what[200]; snprintf (what, 200, "field of the 100%% polarized mode (%g,%g,%g,%g)*%g is finite", q[0], q[1], q[2], q[3], scale);
      expect_true (what, std::isfinite (e.x.real()) && std::isfinite (e.x.imag()) && std::isfinite (e.y.real()) && std::isfinite (e.y.imag()));
    }
    // the boundary |p| = I at many rounding patterns: I = fl (|p|) for pseudo-random directions over many decades
    uint64_t st = 2024; auto rnd = [&st] () { st = st * 6364136223846793005ULL + 1442695040888963407ULL; return double ((st >> 11) % 9007199254740992ULL) / 9007199254740992.0 * 2.0 - 1.0; };
    for (unsigned k=0; k<4000; k++) {
      double scale = std::pow (10.0, 6.0 * rnd ()); double q = scale * rnd (), u = scale * rnd (), v = scale * rnd ();
      double I = std::sqrt (q*q + u*u + v*v); if (!(I*I >= q*q + u*u + v*v) && !(I >= std::sqrt (q*q + u*u + v*v))) continue;
      gauss_reset (); mode m; m.set_normal (&gasdev);
      m.set_Stokes (Stokes<double> (I, q, u, v));
      Spinor<double> e = m.get_field ();
      char what[240]; snprintf (what, 240, "field of the 100%% polarized mode (%a,%a,%a,%a) is finite", I, q, u, v);
      expect_true (what, std::isfinite (e.x.real()) && std::isfinite (e.x.imag()) && std::isfinite (e.y.real()) && std::isfinite (e.y.imag()));
    } }, 1);
#endif
#ifndef SYMX_SYMBOLIC
  // low and high intensities, unpolarized and partially polarized: the polarizer squares back to the requested
  // coherency natural (S) = 2 rho (C01's theorems derive the ensemble mean and covariance from exactly this) at every scale
  fn ("polarizer_scales_plain", [&] {
    const double dirs[][3] = { {0,0,0}, {0.3,-0.2,0.1}, {0.5,0.5,0.5}, {0,0.9,0}, {-0.6,0,0.79}, {0.999,0,0} };
    for (auto& d : dirs) for (double I : { 1e-60, 1e-30, 1e-12, 1e-10, 1e-8, 1e-4, 1.0, 1e4, 1e12, 1e30, 1e60 }) {
      mode m; Stokes<double> S (I, I*d[0], I*d[1], I*d[2]); m.set_Stokes (S);
      Jones<double> P = m.get_polarizer (), PP = P * P, R = convert (natural (S)); char what[200];
      snprintf (what, 200, "mean (%g, %g, %g, %g): the polarizer squares to the requested coherency", S[0], S[1], S[2], S[3]);
      for (unsigned i=0; i<4; i++) expect_true (what, std::abs (PP[i] - R[i]) <= 1e-12 * I);
    } }, 1);
#endif
  symx::finish ();
  return 0;
}
