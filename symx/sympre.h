// symx/sympre.h -- forced-include preamble of the symbolic build.
//   g++ -include sympre.h -DEPSIC_VERIF -I<gen PromoteTraits dir> -I/repo/src -I/repo/src/util ...
// System headers and true_math.h are included while `double` still means
// double; afterwards `double` is Sym and `float` is SymF, and the uniform /
// normal sources are renamed so that drivers can script them.
#ifndef SYMX_SYMPRE_H
#define SYMX_SYMPRE_H

#include <iostream>
#include <fstream>
#include <sstream>
#include <string>
#include <complex>
#include <cmath>
#include <math.h>
#include <vector>
#include <queue>
#include <deque>
#include <stdexcept>
#include <limits>
#include <cstdlib>
#include <stdlib.h>
#include <stdio.h>
#include <string.h>
#include <sys/time.h>
#include <inttypes.h>
#include <assert.h>
#include <algorithm>
#include <functional>
#include <unistd.h>

#include "true_math.h"
#include "emit.h"

namespace true_math {
  inline int finite (const Sym& x)
  { return symx_decide (symx::FINITE, x, Sym(0.0), std::isfinite (x.v)); }
  inline int signbit (const Sym& x)
  { return symx_decide (symx::SIGNBIT, x, Sym(0.0), std::signbit (x.v)); }
}

#include "PromoteTraits.h"
template<> class PromoteTraits<Sym,Sym>   { public: typedef Sym promote_type; };
template<> class PromoteTraits<SymF,SymF> { public: typedef SymF promote_type; };
template<> class PromoteTraits<SymF,Sym>  { public: typedef Sym promote_type; };
template<> class PromoteTraits<Sym,SymF>  { public: typedef Sym promote_type; };

// scripted random sources (defined by the driver)
Sym sym_drand48 ();
long sym_random ();

#define SYMX_SYMBOLIC 1
#define double Sym
#define float SymF
#define drand48 sym_drand48
#ifdef SYMX_SCRIPT_RANDOM
#define random sym_random
#endif
#ifdef SYMX_SCRIPT_RANDOM_SCALAR   // random () delivers a scalar of the scripted stream (a symbolic integer-valued variable)
Sym sym_random_scalar ();
#define random sym_random_scalar
#endif

#endif
