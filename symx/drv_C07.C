// Driver for C07: amplitude-modulation models.
#include "modulated.h"
#include "sample.h"
#include "Pauli.h"
#include "drv_common.h"
#include "drv_gauss.h"
using namespace symx;
using namespace epsic;

// a modulation source with scripted factors d0, d1, ... and symbolic mean / variance
struct stub_mod : public modulated_mode
{
  std::vector<double> d; unsigned k; double mu, var;
  stub_mod (mode* s) : modulated_mode (s), k (0), mu (1.0), var (0.0) { }
  double modulation () { return d.at (k ++); }
  double get_mod_mean () const { return mu; }
  double get_mod_variance () const { return var; }
};
static stub_mod* make_stub (unsigned ndraws, mode* src = 0)
{
  if (!src) src = new mode;
  stub_mod* m = new stub_mod (src);
  for (unsigned i=0; i<ndraws; i++) m->d.push_back (in (nm ("d", i).c_str(), 0.5, 2));
  return m;
}

int main (int argc, char** argv)
{
  symx::init ("C07", argc > 1 ? argv[1] : ".");
  BoxMuller gasdev;

  // (a) modulating a field multiplies its instantaneous Stokes parameters by the factor
  fn ("transform_scales_stokes", [] {
    std::complex<double> x = complex_in ("x"), y = complex_in ("y"); Spinor<double> e (x, y);
    stub_mod* m = make_stub (1);
    Spinor<double> f = m->transform (e);
    Vector<4,double> s0, s1; compute_stokes (s0, e); compute_stokes (s1, f);
    out_vec ("g", s1); out_vec ("w", Vector<4,double> (m->d[0] * s0));
    if (!symbolic) for (unsigned i=0; i<4; i++) expect ("compute_stokes(transform e) = m compute_stokes(e)", s1[i], m->d[0]*s0[i]);
  });
  // (b) predicted mean and covariance of a modulated mode
  fn ("modulated_prediction", [&] {
    mode* src = new mode; src->set_normal (&gasdev); Stokes<double> S = stokes_valid_in ("s"); src->set_Stokes (S);
    stub_mod* m = make_stub (0, src); m->mu = in ("mu", 0.5, 2); m->var = in ("v", 0.1, 1);
    out_vec ("mean", m->get_mean ()); out_mat ("cov", m->get_covariance ());
    out_mat ("srccov", src->get_covariance ());
  });
  // (c) log-normal factor
  fn ("lognormal_factor", [&] { gauss_reset ();
    mode* src = new mode; src->set_normal (&gasdev);
    double beta = in ("beta", 0.3, 2);
    lognormal_mode ln (src, beta);
    out ("m", ln.modulation ()); out ("mean", ln.get_mod_mean ()); out ("var", ln.get_mod_variance ());
    out ("log_sigma", ln.get_log_sigma ()); out ("beta_back", ln.get_beta ());
    out_int ("deviates", gauss_count);
  });
  // ... and after the modulation index has been changed with set_beta
  fn ("lognormal_rebeta", [&] { gauss_reset ();
    mode* src = new mode; src->set_normal (&gasdev);
    double beta1 = in ("beta1", 0.3, 2), beta = in ("beta", 0.3, 2);
    lognormal_mode ln (src, beta1); ln.set_beta (beta);
    out ("m", ln.modulation ()); out ("mean", ln.get_mod_mean ()); out ("var", ln.get_mod_variance ());
    out ("log_sigma", ln.get_log_sigma ()); out ("beta_back", ln.get_beta ());
    out_int ("deviates", gauss_count);
    if (!symbolic) expect ("log-normal: reported variance after set_beta(beta) is beta^2", ln.get_mod_variance (), beta*beta);
  });
  // (d) boxcar smoothing: widths 1..5, 13 calls
  for (unsigned w=1; w<=5; w++)
    fn (nm ("boxcar_w", w), [w] {
      stub_mod* m = make_stub (w + 12);
      boxcar_modulated_mode b (m, w);
      for (unsigned t=0; t<=12; t++) out (nm ("o", t), b.modulation ());
      out_int ("draws", m->k);
    }, 2);
  fn ("boxcar_stats", [] { stub_mod* m = make_stub (0); m->mu = in ("mu", 0.5, 2); m->var = in ("v", 0.1, 1);
    for (unsigned w=1; w<=4; w++) { boxcar_modulated_mode b (m, w); out (nm ("mean_w", w), b.get_mod_mean ()); out (nm ("var_w", w), b.get_mod_variance ());
      for (unsigned l=1; l<=4; l++) out ("xc_w" + std::to_string (w) + "_l" + std::to_string (l), b.get_crosscovariance (l)[0][0]); } });
  // (e) rectangular impulses (sample and hold): widths 1..4, 13 calls
  for (unsigned w=1; w<=4; w++)
    fn (nm ("square_w", w), [w] {
      stub_mod* m = make_stub (13);
      square_modulated_mode q (m, w, 1);
      for (unsigned t=0; t<=12; t++) out (nm ("o", t), q.modulation ());
      out_int ("draws", m->k);
    }, 2);
  // the lag-correlation table it reports, through get_crosscovariance with S = (1,0,0,0), variance v
  for (unsigned w=1; w<=4; w++) for (unsigned n=1; n<=5; n++)
    fn ("square_table_w" + std::to_string (w) + "_n" + std::to_string (n), [w, n] {
      stub_mod* m = make_stub (0); m->var = in ("v", 0.1, 1); m->mu = in ("mu", 0.5, 2);
      square_modulated_mode q (m, w, n);
      out ("mean", q.get_mod_mean ()); out ("var", q.get_mod_variance ());
      for (unsigned l=1; l<w+2; l++) out (nm ("xc", l), q.get_crosscovariance (l)[0][0]);
    }, 1);

#ifndef SYMX_SYMBOLIC
  // witness of the known finding on the implementation: width = sample size = 2, adjacent samples
  // are built from different impulse blocks and independent field instances, so their exact
  // cross-covariance is 0; the prediction assembled by the library is not
  fn ("square_lag_w2n2_plain", [] {
    stub_mod* m = make_stub (0); m->var = 0.5; m->mu = 1.0;
    square_modulated_mode* q = new square_modulated_mode (m, 2, 2);
    single* s = new single (q); s->sample_size = 2;
    expect ("rectangular modulation, width = sample size = 2: predicted lag-1 cross-covariance of sample means equals the exact value 0",
            s->get_crosscovariance (1)[0][0], 0.0);
  }, 1);
#endif

#ifndef SYMX_SYMBOLIC
  // rectangular impulses much longer than the widths the ties use: a scripted source whose factors are all
  // distinct drives the square-wave mode, so two generated factors are equal iff they share an impulse; the
  // reported lag statistics inside a sample (sample size > width) must equal the fraction of pairs (i, i+lag)
  // that share an impulse, averaged over one full cycle of block/sample alignments
  fn ("square_long_impulse_plain", [] {
    struct distinct_mode : public modulated_mode { double next; distinct_mode (mode* s) : modulated_mode (s), next (0) { }
      double modulation () { next += 1.0; return next; } double get_mod_mean () const { return 1.0; } double get_mod_variance () const { return 1.0; } };
    const unsigned cfg[][2] = { {2,3}, {3,4}, {4,6}, {5,7}, {6,9}, {16,20}, {100,101}, {128,200}, {255,256}, {256,257}, {257,258}, {300,301}, {300,450}, {520,521}, {1000,1001} };
    for (auto& c : cfg) { unsigned width = c[0], n = c[1];
      mode* source = new mode; distinct_mode* script = new distinct_mode (source);
      square_modulated_mode sq (script, width, n);
      unsigned a = width, b = n; while (b) { unsigned t = a % b; a = b; b = t; } unsigned nsample = width / a;
      std::vector<double> same (width, 0.0), factor (n);
      for (unsigned cycle=0; cycle<2; cycle++) for (unsigned is=0; is<nsample; is++) {
        for (unsigned i=0; i<n; i++) factor[i] = sq.modulation ();
        for (unsigned lag=1; lag<width && lag<n; lag++) for (unsigned i=0; i+lag<n; i++) if (factor[i] == factor[i+lag]) same[lag] += 1.0; }
      unsigned bad = 0; unsigned firstbad = 0; double g0 = 0, r0 = 0;
      for (unsigned lag=1; lag<width && lag<n; lag++) { double generated = same[lag] / (2.0 * nsample * (n - lag)), reported = sq.get_crosscovariance (lag)[0][0];
        if (std::fabs (generated - reported) > 1e-12) { if (!bad) { firstbad = lag; g0 = generated; r0 = reported; } bad ++; } }
      char what[240]; snprintf (what, 240, "rectangular modulation width %u, sample size %u: reported within-sample lag statistics = generated (first mismatch lag %u: generated %.12g, reported %.12g; %u lags)", width, n, firstbad, g0, r0, bad);
      expect_true (what, bad == 0); } }, 1);
#endif
#ifndef SYMX_SYMBOLIC
  // the boxcar-smoothed factor is the mean of the last `smooth` source factors, whatever came before: long runs on
  // one object with factors spanning many decades (a rare huge impulse passing through the window)
  fn ("boxcar_window_mean_plain", [] {
    for (unsigned smooth : { 2u, 4u, 8u }) { uint64_t st = 17; auto rnd = [&st] () { st = st * 6364136223846793005ULL + 1442695040888963407ULL; return double ((st >> 33) % 1000001) / 1e6; };
      stub_mod* m = make_stub (0); const unsigned N = 4000;
      for (unsigned k=0; k<N+smooth; k++) { double v = 1e-3 * (1 + rnd ()); if (k % 97 == 50) v = 3e12 * (1 + rnd ()); if (k % 389 == 7) v = 1e-9 * (1 + rnd ()); m->d.push_back (v); }
      boxcar_modulated_mode bm (m, smooth); double worst = 0; unsigned worst_k = 0;
      for (unsigned k=0; k<N; k++) { double f = bm.modulation (); long double w = 0; for (unsigned j=0; j<smooth; j++) w += m->d[k + j]; w /= smooth;   // the window after setup () consumed smooth-1 factors
        double err = std::fabs (double ((f - w) / w)); if (err > worst) { worst = err; worst_k = k; } }
      char what[200]; snprintf (what, 200, "boxcar width %u: every smoothed factor equals the mean of its window to 1e-13 (worst relative error %.3g at call %u)", smooth, worst, worst_k);
      expect_true (what, worst <= 1e-13); } }, 1);
#endif
  symx::finish ();
  return 0;
}
