// symx/sym.h -- concolic scalar used to translate straten/epsic's C++ into Gallina.
//
// A Sym carries a node of a global expression DAG plus a binary64 shadow value
// computed by ordinary double arithmetic in the same order as the code.
// Comparisons and integer/bool conversions are *decisions*: they are recorded
// in the path condition and decided by the shadow value (concolic mode) or by
// a forced script (path-enumeration mode).
//
// This header must be included BEFORE `#define double Sym`.
#ifndef SYMX_SYM_H
#define SYMX_SYM_H

#include <vector>
#include <string>
#include <map>
#include <tuple>
#include <cmath>
#include <complex>
#include <limits>
#include <iostream>
#include <sstream>
#include <cstring>
#include <cstdint>
#include <stdexcept>
#include <type_traits>
#include <functional>

namespace symx {

typedef double real_t;   // the real C++ double, whatever the macro says later

enum Op { VAR, LIT, ADD, SUB, MUL, DIV, NEG,
          SQRT, EXP, LOG, SIN, COS, ACOS, ATAN, SINH, COSH, ATANH, FABS,
          ATAN2, COPYSIGN, RND32, CSQRT_RE, CSQRT_IM, FLOOR };

inline const char* opname (Op o) {
  static const char* n[] = { "var","lit","oadd","osub","omul","odiv","oneg",
    "osqrt","oexp","olog","osin","ocos","oacos","oatan","osinh","ocosh","oatanh","ofabs",
    "oatan2","ocopysign","ornd32","ocsqrt_re","ocsqrt_im","ofloor" };
  return n[o];
}

struct Node { Op op; int a, b; real_t lit; std::string name; bool hasvar; };

enum Cmp { LT, LE, EQ, NE, GT, GE, TRUNC, NONZERO, FINITE, SIGNBIT };

struct Decision { Cmp c; int a, b; bool outcome; long k; };

struct Ctx {
  std::vector<Node> nodes;
  std::map<std::tuple<int,int,int>, int> cons;
  std::map<uint64_t,int> litcons;
  std::vector<Decision> pc;
  // forced-script mode
  bool forced = false;
  std::vector<int> script;
  size_t ndecisions = 0;
  bool record = true;      // set false to suppress decision recording
  bool memo = false;       // a comparison already decided on this path (same operator, same nodes) is not asked again
};

inline Ctx& ctx () { static Ctx c; return c; }

inline uint64_t bits (real_t x) { uint64_t u; std::memcpy (&u, &x, 8); return u; }

inline int mk_lit (real_t v) {
  Ctx& c = ctx();
  auto it = c.litcons.find (bits(v));
  if (it != c.litcons.end()) return it->second;
  c.nodes.push_back ({LIT, -1, -1, v, "", false});
  int id = int(c.nodes.size()) - 1;
  c.litcons[bits(v)] = id;
  return id;
}

inline int mk_var (const std::string& name) {
  Ctx& c = ctx();
  c.nodes.push_back ({VAR, -1, -1, 0.0, name, true});
  return int(c.nodes.size()) - 1;
}

inline int mk (Op op, int a, int b = -1) {
  Ctx& c = ctx();
  auto key = std::make_tuple (int(op), a, b);
  auto it = c.cons.find (key);
  if (it != c.cons.end()) return it->second;
  c.nodes.push_back ({op, a, b, 0.0, "", c.nodes[a].hasvar || (b >= 0 && c.nodes[b].hasvar)});
  int id = int(c.nodes.size()) - 1;
  c.cons[key] = id;
  return id;
}

inline void reset () {
  Ctx& c = ctx();
  // the node table only grows: objects that outlive a function body (e.g. the
  // process-wide Pauli basis) keep valid node ids
  c.pc.clear();
  c.ndecisions = 0;
}

} // namespace symx

struct Sym;
inline bool symx_decide (symx::Cmp c, const Sym& a, const Sym& b, bool shadow);

struct Sym {
  int id;
  symx::real_t v;

  Sym () : id (symx::mk_lit (0.0)), v (0.0) { }
  Sym (int id_, symx::real_t v_, int /*tag*/) : id (id_), v (v_) { }

  template<class A, typename std::enable_if<std::is_arithmetic<A>::value,int>::type = 0>
  Sym (A a) : id (symx::mk_lit (symx::real_t(a))), v (symx::real_t(a)) { }

  // integer / bool conversions are decisions
  operator unsigned () const;
  explicit operator int () const;
  explicit operator long () const;
  explicit operator bool () const;
  explicit operator float () const { return float(v); }   // only used by I/O

  Sym& operator += (const Sym& o);
  Sym& operator -= (const Sym& o);
  Sym& operator *= (const Sym& o);
  Sym& operator /= (const Sym& o);
  template<class A, typename std::enable_if<std::is_arithmetic<A>::value,int>::type = 0>
  Sym& operator += (A a) { return *this += Sym(a); }
  template<class A, typename std::enable_if<std::is_arithmetic<A>::value,int>::type = 0>
  Sym& operator -= (A a) { return *this -= Sym(a); }
  template<class A, typename std::enable_if<std::is_arithmetic<A>::value,int>::type = 0>
  Sym& operator *= (A a) { return *this *= Sym(a); }
  template<class A, typename std::enable_if<std::is_arithmetic<A>::value,int>::type = 0>
  Sym& operator /= (A a) { return *this /= Sym(a); }
};

inline Sym sym_bin (symx::Op op, const Sym& a, const Sym& b, symx::real_t v)
{ return Sym (symx::mk (op, a.id, b.id), v, 0); }
inline Sym sym_un (symx::Op op, const Sym& a, symx::real_t v)
{ return Sym (symx::mk (op, a.id), v, 0); }

inline Sym operator + (const Sym& a, const Sym& b) { return sym_bin (symx::ADD, a, b, a.v + b.v); }
inline Sym operator - (const Sym& a, const Sym& b) { return sym_bin (symx::SUB, a, b, a.v - b.v); }
inline Sym operator * (const Sym& a, const Sym& b) { return sym_bin (symx::MUL, a, b, a.v * b.v); }
inline Sym operator / (const Sym& a, const Sym& b) { return sym_bin (symx::DIV, a, b, a.v / b.v); }
inline Sym operator - (const Sym& a) { return sym_un (symx::NEG, a, -a.v); }
inline Sym operator + (const Sym& a) { return a; }

inline Sym& Sym::operator += (const Sym& o) { return *this = *this + o; }
inline Sym& Sym::operator -= (const Sym& o) { return *this = *this - o; }
inline Sym& Sym::operator *= (const Sym& o) { return *this = *this * o; }
inline Sym& Sym::operator /= (const Sym& o) { return *this = *this / o; }

#define SYMX_ARITH(A) typename std::enable_if<std::is_arithmetic<A>::value,int>::type = 0
#define SYMX_MIXED(OP) \
  template<class A, SYMX_ARITH(A)> inline Sym operator OP (const Sym& a, A b) { return a OP Sym(b); } \
  template<class A, SYMX_ARITH(A)> inline Sym operator OP (A a, const Sym& b) { return Sym(a) OP b; }
SYMX_MIXED(+) SYMX_MIXED(-) SYMX_MIXED(*) SYMX_MIXED(/)
#undef SYMX_MIXED

inline bool operator <  (const Sym& a, const Sym& b) { return symx_decide (symx::LT, a, b, a.v <  b.v); }
inline bool operator <= (const Sym& a, const Sym& b) { return symx_decide (symx::LE, a, b, a.v <= b.v); }
inline bool operator >  (const Sym& a, const Sym& b) { return symx_decide (symx::GT, a, b, a.v >  b.v); }
inline bool operator >= (const Sym& a, const Sym& b) { return symx_decide (symx::GE, a, b, a.v >= b.v); }
inline bool operator == (const Sym& a, const Sym& b) { return symx_decide (symx::EQ, a, b, a.v == b.v); }
inline bool operator != (const Sym& a, const Sym& b) { return symx_decide (symx::NE, a, b, a.v != b.v); }
#define SYMX_MIXEDC(OP) \
  template<class A, SYMX_ARITH(A)> inline bool operator OP (const Sym& a, A b) { return a OP Sym(b); } \
  template<class A, SYMX_ARITH(A)> inline bool operator OP (A a, const Sym& b) { return Sym(a) OP b; }
SYMX_MIXEDC(<) SYMX_MIXEDC(<=) SYMX_MIXEDC(>) SYMX_MIXEDC(>=) SYMX_MIXEDC(==) SYMX_MIXEDC(!=)
#undef SYMX_MIXEDC

inline bool symx_decide (symx::Cmp c, const Sym& a, const Sym& b, bool shadow)
{
  symx::Ctx& cx = symx::ctx();
  bool outcome = shadow;
  // a comparison of two variable-free expressions is a concrete fact (decided in
  // binary64 by the shadow values), not a decision
  bool concrete = !cx.nodes[a.id].hasvar && !cx.nodes[b.id].hasvar;
  // |x| >= 0 and |x| < 0 against the literal zero are facts, not decisions
  if (!concrete && cx.nodes[a.id].op == symx::FABS && cx.nodes[b.id].op == symx::LIT && cx.nodes[b.id].lit == 0.0
      && (c == symx::GE || c == symx::LT)) { concrete = true; shadow = (c == symx::GE); }
  if (!concrete && cx.memo && cx.record)
    for (const auto& d : cx.pc)
      if (d.c == c && d.a == a.id && d.b == b.id) return d.outcome;
  if (!concrete) {
    if (cx.forced && cx.ndecisions < cx.script.size())
      outcome = cx.script[cx.ndecisions] != 0;
    cx.ndecisions ++;
    if (cx.record)
      cx.pc.push_back ({c, a.id, b.id, outcome, 0});
  }
  return outcome;
}

inline Sym::operator unsigned () const
{
  symx::Ctx& cx = symx::ctx();
  long k = long(v);
  if (cx.nodes[id].hasvar && cx.record)
    cx.pc.push_back ({symx::TRUNC, id, -1, true, k});
  return unsigned(k);
}
inline Sym::operator int () const
{
  symx::Ctx& cx = symx::ctx();
  long k = long(v);
  if (cx.nodes[id].hasvar && cx.record)
    cx.pc.push_back ({symx::TRUNC, id, -1, true, k});
  return int(k);
}
inline Sym::operator long () const { return long(int(*this)); }
inline Sym::operator bool () const
{ return symx_decide (symx::NE, *this, Sym(0.0), v != 0.0); }

// ---------------------------------------------------------------------------
// single precision: identity over the reals, an explicit rounding node in
// binary floating point
struct SymF : public Sym {
  SymF () : Sym () { }
  SymF (const Sym& s) : Sym (sym_un (symx::RND32, s, symx::real_t(float(s.v)))) { }
  template<class A, SYMX_ARITH(A)>
  SymF (A a) : Sym (sym_un (symx::RND32, Sym(a), symx::real_t(float(a)))) { }
  SymF& operator = (const Sym& s) { Sym::operator= (SymF(s)); return *this; }
  template<class A, SYMX_ARITH(A)> SymF& operator = (A a) { Sym::operator= (SymF(a)); return *this; }
  SymF& operator += (const Sym& o) { return *this = SymF (Sym(*this) + o); }
  SymF& operator -= (const Sym& o) { return *this = SymF (Sym(*this) - o); }
  SymF& operator *= (const Sym& o) { return *this = SymF (Sym(*this) * o); }
  SymF& operator /= (const Sym& o) { return *this = SymF (Sym(*this) / o); }
};


// ---------------------------------------------------------------------------
// std::complex<Sym>: the generic libstdc++ template with the same formulas,
// plus implicit construction from arithmetic literals (`T r = 0;`,
// `const T& a = 0.0` compile for T = complex<double>, so they must here).
namespace std {
  template<> struct complex<Sym> {
    typedef Sym value_type;
    Sym _M_real, _M_imag;
    complex (const Sym& r = Sym(), const Sym& i = Sym()) : _M_real (r), _M_imag (i) { }
    template<class A, SYMX_ARITH(A)> complex (A a) : _M_real (Sym(a)), _M_imag (Sym()) { }
    template<class A, class B, SYMX_ARITH(A), SYMX_ARITH(B)> complex (A a, B b) : _M_real (Sym(a)), _M_imag (Sym(b)) { }
    template<class A, SYMX_ARITH(A)> complex (const Sym& a, A b) : _M_real (a), _M_imag (Sym(b)) { }
    template<class A, SYMX_ARITH(A)> complex (A a, const Sym& b) : _M_real (Sym(a)), _M_imag (b) { }
    template<class X> complex (const complex<X>& z) : _M_real (z.real()), _M_imag (z.imag()) { }
    const complex& __rep () const { return *this; }
    Sym real () const { return _M_real; }
    Sym imag () const { return _M_imag; }
    void real (const Sym& v) { _M_real = v; }
    void imag (const Sym& v) { _M_imag = v; }
    complex& operator = (const Sym& t) { _M_real = t; _M_imag = Sym(); return *this; }
    complex& operator += (const Sym& t) { _M_real += t; return *this; }
    complex& operator -= (const Sym& t) { _M_real -= t; return *this; }
    complex& operator *= (const Sym& t) { _M_real *= t; _M_imag *= t; return *this; }
    complex& operator /= (const Sym& t) { _M_real /= t; _M_imag /= t; return *this; }
    template<class A, SYMX_ARITH(A)> complex& operator = (A a) { return *this = Sym(a); }
    template<class A, SYMX_ARITH(A)> complex& operator *= (A a) { return *this *= Sym(a); }
    template<class A, SYMX_ARITH(A)> complex& operator /= (A a) { return *this /= Sym(a); }
    template<class X> complex& operator = (const complex<X>& z) { _M_real = z.real(); _M_imag = z.imag(); return *this; }
    template<class X> complex& operator += (const complex<X>& z) { _M_real += z.real(); _M_imag += z.imag(); return *this; }
    template<class X> complex& operator -= (const complex<X>& z) { _M_real -= z.real(); _M_imag -= z.imag(); return *this; }
    template<class X> complex& operator *= (const complex<X>& z) {
      const Sym r = _M_real * z.real() - _M_imag * z.imag();
      _M_imag = _M_real * z.imag() + _M_imag * z.real();
      _M_real = r;
      return *this;
    }
    template<class X> complex& operator /= (const complex<X>& z) {
      const Sym r = _M_real * z.real() + _M_imag * z.imag();
      const Sym n = z.real() * z.real() + z.imag() * z.imag();
      _M_imag = (_M_imag * z.real() - _M_real * z.imag()) / n;
      _M_real = r / n;
      return *this;
    }
  };
}

// ---------------------------------------------------------------------------
// elementary functions in the global namespace (the repo calls ::exp etc.)
#define SYMX_UN(NAME, OP, EXPR) \
  inline Sym NAME (const Sym& x) { return sym_un (symx::OP, x, EXPR); }
SYMX_UN(sqrt, SQRT, std::sqrt(x.v))
SYMX_UN(exp, EXP, std::exp(x.v))
SYMX_UN(log, LOG, std::log(x.v))
SYMX_UN(sin, SIN, std::sin(x.v))
SYMX_UN(cos, COS, std::cos(x.v))
SYMX_UN(acos, ACOS, std::acos(x.v))
SYMX_UN(atan, ATAN, std::atan(x.v))
SYMX_UN(sinh, SINH, std::sinh(x.v))
SYMX_UN(cosh, COSH, std::cosh(x.v))
SYMX_UN(atanh, ATANH, std::atanh(x.v))
SYMX_UN(fabs, FABS, std::fabs(x.v))
SYMX_UN(abs, FABS, std::fabs(x.v))
SYMX_UN(floor, FLOOR, std::floor(x.v))
#undef SYMX_UN
inline Sym atan2 (const Sym& s, const Sym& c) { return sym_bin (symx::ATAN2, s, c, std::atan2 (s.v, c.v)); }
inline Sym copysign (const Sym& a, const Sym& b) { return sym_bin (symx::COPYSIGN, a, b, std::copysign (a.v, b.v)); }
// hypot is the real function sqrt (x^2 + y^2) (libm evaluates it without intermediate over/underflow)
inline Sym hypot (const Sym& a, const Sym& b) { Sym r = ::sqrt (a * a + b * b); r.v = std::hypot (a.v, b.v); return r; }
inline int isinf (const Sym& x) { return std::isinf (x.v); }
inline int isnan (const Sym& x) { return std::isnan (x.v); }

namespace std {
  inline Sym sqrt (const Sym& x) { return ::sqrt(x); }
  inline Sym exp (const Sym& x) { return ::exp(x); }
  inline Sym log (const Sym& x) { return ::log(x); }
  inline Sym sin (const Sym& x) { return ::sin(x); }
  inline Sym cos (const Sym& x) { return ::cos(x); }
  inline Sym acos (const Sym& x) { return ::acos(x); }
  inline Sym atan (const Sym& x) { return ::atan(x); }
  inline Sym sinh (const Sym& x) { return ::sinh(x); }
  inline Sym cosh (const Sym& x) { return ::cosh(x); }
  inline Sym atanh (const Sym& x) { return ::atanh(x); }
  inline Sym fabs (const Sym& x) { return ::fabs(x); }
  inline Sym abs (const Sym& x) { return ::fabs(x); }
  inline Sym atan2 (const Sym& s, const Sym& c) { return ::atan2(s,c); }
  inline Sym copysign (const Sym& s, const Sym& c) { return ::copysign(s,c); }
  inline Sym hypot (const Sym& a, const Sym& b) { return ::hypot(a,b); }
  inline bool isfinite (const Sym& x) { return std::isfinite (x.v); }
  inline bool isnan (const Sym& x) { return std::isnan (x.v); }
  inline bool isinf (const Sym& x) { return std::isinf (x.v); }

  template<> struct numeric_limits<Sym> : public numeric_limits<symx::real_t> {
    static Sym epsilon () { return Sym (numeric_limits<symx::real_t>::epsilon()); }
    static Sym min () { return Sym (numeric_limits<symx::real_t>::min()); }
    static Sym max () { return Sym (numeric_limits<symx::real_t>::max()); }
  };
  template<> struct numeric_limits<SymF> : public numeric_limits<float> {
    static SymF epsilon () { return SymF (numeric_limits<float>::epsilon()); }
  };

  // the principal complex square root is an oracle: two uninterpreted nodes
  template<> inline complex<Sym> sqrt (const complex<Sym>& z)
  {
    std::complex<symx::real_t> r = std::sqrt (std::complex<symx::real_t> (z.real().v, z.imag().v));
    return complex<Sym> (sym_bin (symx::CSQRT_RE, z.real(), z.imag(), r.real()),
                         sym_bin (symx::CSQRT_IM, z.real(), z.imag(), r.imag()));
  }
}

// literal (arithmetic) operands mixed with complex<Sym>: `2.0 * z` compiles for
// complex<double>, so it must for complex<Sym>
#define SYMX_CMIX(OP) \
  template<class A, SYMX_ARITH(A)> inline std::complex<Sym> operator OP (A a, const std::complex<Sym>& z) { return Sym(a) OP z; } \
  template<class A, SYMX_ARITH(A)> inline std::complex<Sym> operator OP (const std::complex<Sym>& z, A a) { return z OP Sym(a); }
SYMX_CMIX(+) SYMX_CMIX(-) SYMX_CMIX(*) SYMX_CMIX(/)
#undef SYMX_CMIX

inline std::ostream& operator << (std::ostream& os, const Sym& s) { return os << s.v; }
inline std::istream& operator >> (std::istream& is, Sym& s)
{ symx::real_t v; is >> v; if (is) s = Sym(v); return is; }

#endif
