// symx/drv_gauss.h -- scripted source of normal deviates: the driver's own
// definition of BoxMuller (BoxMuller.C is NOT linked), handing out fresh named
// variables g0, g1, ... (symbolic build) / the same seeded values (plain build).
#ifndef SYMX_DRV_GAUSS_H
#define SYMX_DRV_GAUSS_H
#include "BoxMuller.h"
namespace symx {
  static unsigned gauss_count = 0;       // deviates handed out in the current function body
  static double gauss_scale = 1.0;
  inline void gauss_reset () { gauss_count = 0; }
}
BoxMuller::BoxMuller (long) { have_one_ready = false; one_ready = 0; }
float BoxMuller::evaluate ()
{
  std::string name = "g" + std::to_string (symx::gauss_count ++);
  return symx::in (name.c_str(), -1.5, 1.5);
}
#endif
