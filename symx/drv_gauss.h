// symx/drv_gauss.h -- scripted source of normal deviates: the driver's own
// definition of BoxMuller (BoxMuller.C is NOT linked), handing out fresh named
// variables g0, g1, ... (symbolic build) / the same seeded values (plain build).
#ifndef SYMX_DRV_GAUSS_H
#define SYMX_DRV_GAUSS_H
#include "BoxMuller.h"
namespace symx {
  static unsigned gauss_count = 0;       // deviates handed out in the current function body
  static double gauss_scale = 1.0;
  static std::vector<scalar_t> gauss_queue;   // deviates created up front by the driver (uniform signatures across paths)
  static unsigned gauss_qpos = 0;
  inline void gauss_reset () { gauss_count = 0; gauss_queue.clear (); gauss_qpos = 0; }
  inline void gauss_preload (unsigned n) {
    for (unsigned i=0; i<n; i++) { std::string name = "g" + std::to_string (i); gauss_queue.push_back (in (name.c_str(), -1.5, 1.5)); }
  }
}
BoxMuller::BoxMuller (long) { have_one_ready = false; one_ready = 0; }
float BoxMuller::evaluate ()
{
  if (symx::gauss_qpos < symx::gauss_queue.size ()) { symx::gauss_count ++; return symx::gauss_queue[symx::gauss_qpos ++]; }
  std::string name = "g" + std::to_string (symx::gauss_count ++);
  return symx::in (name.c_str(), -1.5, 1.5);
}
#endif
