// symx/plainpre.h -- forced-include preamble of the plain-double build of the
// same drivers (the reference the symbolic build's shadow values are compared with).
#ifndef SYMX_PLAINPRE_H
#define SYMX_PLAINPRE_H

#include <iostream>
#include <fstream>
#include <sstream>
#include <string>
#include <complex>
#include <cmath>
#include <math.h>
#include <vector>
#include <queue>
#include <stdexcept>
#include <limits>
#include <cstdlib>
#include <stdlib.h>
#include <stdio.h>
#include <string.h>
#include <cstdint>
#include <functional>
#include <assert.h>

namespace symx {

typedef double real_t;
typedef double scalar_t;
static const bool symbolic = false;

struct Global {
  std::ofstream val;
  std::ofstream cex;
  bool search = false;
  uint64_t seed = 1;
  std::string fname; int run = 0; unsigned nin = 0;
  std::string thrown;
  std::vector<std::pair<std::string,real_t> > inputs;
  int ncex = 0;
  std::string cex_fn; int cex_fn_n = 0;
  long nexpect = 0;
};
inline Global& G () { static Global g; return g; }

inline uint64_t splitmix (uint64_t& s) {
  uint64_t z = (s += 0x9e3779b97f4a7c15ULL);
  z = (z ^ (z >> 30)) * 0xbf58476d1ce4e5b9ULL;
  z = (z ^ (z >> 27)) * 0x94d049bb133111ebULL;
  return z ^ (z >> 31);
}
inline uint64_t strhash (const std::string& s) {
  uint64_t h = 1469598103934665603ULL;
  for (unsigned char c : s) { h ^= c; h *= 1099511628211ULL; }
  return h;
}
inline real_t input_value (const std::string& f, int run, unsigned k, real_t lo, real_t hi) {
  uint64_t s = G().seed * 0x2545F4914F6CDD1DULL ^ strhash(f) ^ (uint64_t(run) << 40) ^ (uint64_t(k) << 20);
  uint64_t z = splitmix (s); z = splitmix (s);
  real_t u = real_t (z >> 44) / real_t (1 << 20);
  real_t v = lo + (hi - lo) * u;
  if (G().search && run >= 3) {
    // search mode: a third of the runs draw small exact values (0, +-1, +-1/2, 2 ...)
    static const real_t special[] = { 0, 1, -1, 0.5, -0.5, 2, -2, 0.25, 3, -3, 1.5, 4 };
    uint64_t pick = splitmix (s);
    if (run % 3 == 0 || (run % 3 == 1 && (pick & 1))) {
      real_t c = special[(pick >> 8) % 12];
      if (c >= lo && c <= hi) v = c;
      else v = (pick & 2) ? lo : hi;
    }
  }
  return v;
}
inline void init (const char* prop, const char* outdir) {
  const char* s = getenv ("VERIF_SEED");
  G().seed = s ? strtoull (s, 0, 10) : 1;
  G().search = getenv ("SYMX_SEARCH") != 0;
  G().val.open (std::string (outdir) + (G().search ? "/val_search_" : "/val_dbl_") + prop + ".txt");
  G().cex.open (std::string (outdir) + "/cex_" + prop + ".jsonl");
}
inline double in (const char* name, real_t lo = -2.0, real_t hi = 2.0) {
  Global& g = G();
  real_t v = input_value (g.fname, g.run, g.nin ++, lo, hi);
  g.inputs.push_back (std::make_pair (std::string (name), v));
  return v;
}
inline double in_at (const char* name, real_t v) {
  G().nin ++; G().inputs.push_back (std::make_pair (std::string (name), v)); return v;
}
// numerical oracle used only by the counterexample search (never for a verdict)
inline void expect (const std::string& what, double got, double want, double tol = 1e-9) {
  Global& g = G();
  g.nexpect ++;
  double sc = std::fabs (want) > 1 ? std::fabs (want) : 1;
  bool bad = (std::isnan (got) != std::isnan (want)) || (std::fabs (got - want) > tol * sc) || (std::isinf (got) != std::isinf (want));
  if (!bad || g.ncex >= 400) return;
  if (g.cex_fn != g.fname) { g.cex_fn = g.fname; g.cex_fn_n = 0; }
  { static const int cap = getenv ("SYMX_CEX_CAP") ? atoi (getenv ("SYMX_CEX_CAP")) : 2; if (g.cex_fn_n >= cap) return; }
  g.cex_fn_n ++;
  g.ncex ++;
  char b[64];
  g.cex << "{\"function\":\"" << g.fname << "\",\"run\":" << g.run << ",\"observable\":\"" << what << "\",\"inputs\":{";
  for (size_t i=0; i<g.inputs.size(); i++) {
    snprintf (b, 64, "%.17g", g.inputs[i].second);
    g.cex << (i?",":"") << "\"" << g.inputs[i].first << "\":" << (std::isfinite (g.inputs[i].second) ? b : "null");
  }
  snprintf (b, 64, "%.17g", got);  g.cex << "},\"got\":\"" << b << "\"";
  snprintf (b, 64, "%.17g", want); g.cex << ",\"expected\":\"" << b << "\"}" << std::endl;
}
inline void expect (const std::string& what, const std::complex<double>& got, const std::complex<double>& want, double tol = 1e-9) {
  expect (what + "_re", got.real(), want.real(), tol); expect (what + "_im", got.imag(), want.imag(), tol);
}
inline void expect_true (const std::string& what, bool cond) { expect (what, cond ? 1.0 : 0.0, 1.0); }
inline std::string hexf (real_t v) { char b[64]; snprintf (b, 64, "%a", v); return b; }
inline void out (const std::string& name, double v) {
  Global& g = G();
  g.val << "V " << g.fname << " " << g.run << " " << name << " " << hexf (v) << "\n";
}
inline void out (const std::string& name, const std::complex<double>& z) {
  out (name + "_re", z.real()); out (name + "_im", z.imag());
}
inline void out_int (const std::string& name, long k) { out (name, double(k)); }
inline void fn (const std::string& name, const std::function<void()>& body, int nruns = 3) {
  Global& g = G();
  if (g.search && nruns > 1) nruns = 60;
  for (int run = 0; run < nruns; run ++) {
    g.fname = name; g.run = run; g.nin = 0; g.inputs.clear ();
    try { body (); }
    catch (std::exception& e) { g.val << "T " << name << " " << run << " " << e.what() << "\n"; }
  }
}
inline int fn_paths (const std::string&, const std::function<void()>&, unsigned = 12, unsigned = 256) { return 0; }
inline void finish () { G().val.close (); G().cex.close (); }

} // namespace symx

double sym_drand48 ();
long sym_random ();
#define drand48 sym_drand48
#ifdef SYMX_SCRIPT_RANDOM
#define random sym_random
#endif
#ifdef SYMX_SCRIPT_RANDOM_SCALAR   // random () delivers a scalar of the scripted stream (a symbolic integer-valued variable)
double sym_random_scalar ();
#define random sym_random_scalar
#endif

#endif
